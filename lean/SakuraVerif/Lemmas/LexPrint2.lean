import SakuraVerif.Lemmas.LexPrint
/-! # print → lex, second part: fuel-stable form, chords, `Sub`, tuplets

`Stab tb R ln harm K b` says that lexing the text `R` gives `K` for every fuel ≥ `b`.  Stated this way the reader lemmas
compose through the nested `lex` calls of `Sub{…}` and `{…}L` (whose inner call receives whatever fuel is left). -/
namespace Sakura.Lp
open Sakura Sakura.Lx
open Sakura.Core (Cmd)

/-- lexing `R` (line `ln`, chord flag `harm`) yields `K` for every fuel from `b` on -/
def Stab (tb : Int) (R : List Nat) (ln : Int) (harm : Bool) (K : Option Out) (b : Nat) : Prop :=
  ∀ F, b ≤ F → lexLoop tb F R ln harm = K

theorem Stab.nil (tb : Int) (ln : Int) (harm : Bool) : Stab tb [] ln harm (some ⟨[], []⟩) 1 := by
  intro F hF
  obtain ⟨f, rfl⟩ : ∃ f, F = f + 1 := ⟨F - 1, by omega⟩
  simp [lexLoop]

theorem Stab.mono {tb R ln harm K b} (h : Stab tb R ln harm K b) (b' : Nat) (hb : b ≤ b') : Stab tb R ln harm K b' :=
  fun F hF => h F (by omega)

/-- one iteration of the main loop in front of a stable text -/
theorem Stab.step {tb : Int} {text R : List Nat} {ln ln' : Int} {harm harm' : Bool} {K : Option Out} {b : Nat} (t : Tok)
    (hstep : ∀ f, lexLoop tb (f + 1) text ln harm = pre t (lexLoop tb f R ln' harm'))
    (h : Stab tb R ln' harm' K b) : Stab tb text ln harm (pre t K) (b + 1) := by
  intro F hF
  obtain ⟨f, rfl⟩ : ∃ f, F = f + 1 := ⟨F - 1, by omega⟩
  rw [hstep f, h f (by omega)]

/-- a blank in front of a stable text -/
theorem Stab.blank {tb : Int} {R : List Nat} {ln : Int} {harm : Bool} {K : Option Out} {b : Nat}
    (h : Stab tb R ln harm K b) : Stab tb (32 :: R) ln harm K (b + 1) := by
  intro F hF
  obtain ⟨f, rfl⟩ : ∃ f, F = f + 1 := ⟨F - 1, by omega⟩
  rw [lex_blank, h f (by omega)]


/-! ## balanced texts and `get_token_nest` -/

/-- a character that is neither a brace nor a line break -/
def Plain (c : Nat) : Prop := c ≠ 123 ∧ c ≠ 125 ∧ c ≠ 10

/-- texts whose braces are balanced and that contain no line break -/
inductive Bal : List Nat → Prop
  | nil : Bal []
  | plain (c : Nat) (T : List Nat) : Plain c → Bal T → Bal (c :: T)
  | group (A B : List Nat) : Bal A → Bal B → Bal (123 :: (A ++ 125 :: B))

theorem Bal.append {A B : List Nat} (hA : Bal A) (hB : Bal B) : Bal (A ++ B) := by
  induction hA with
  | nil => simpa using hB
  | plain c T hc _ ih => exact Bal.plain c _ hc ih
  | group A1 B1 _ _ ihA ihB =>
    have : 123 :: (A1 ++ 125 :: B1) ++ B = 123 :: (A1 ++ 125 :: (B1 ++ B)) := by simp
    rw [this]
    exact Bal.group A1 (B1 ++ B) ‹_› ihB

theorem Bal.of_plain (L : List Nat) (h : ∀ c ∈ L, Plain c) : Bal L := by
  induction L with
  | nil => exact Bal.nil
  | cons c cs ih => exact Bal.plain c cs (h c List.mem_cons_self) (ih (fun x hx => h x (List.mem_cons_of_mem _ hx)))

/-- a balanced text passes through the nesting scan at any positive level -/
theorem nestGo_bal {T : List Nat} (hT : Bal T) : ∀ (level : Nat) (X : List Nat) (ln : Int), 1 ≤ level →
    nestGo 123 125 level (T ++ X) ln = (T ++ (nestGo 123 125 level X ln).1, (nestGo 123 125 level X ln).2) := by
  induction hT with
  | nil => intro level X ln _; simp
  | plain c T hc _ ih =>
    intro level X ln hl
    obtain ⟨h1, h2, h3⟩ := hc
    rw [List.cons_append, nestGo]
    simp only [h1, h2, h3, if_false]
    rw [ih level X ln hl]
    rfl
  | group A B _ _ ihA ihB =>
    intro level X ln hl
    have e : 123 :: (A ++ 125 :: B) ++ X = 123 :: (A ++ (125 :: (B ++ X))) := by simp
    rw [e, nestGo]
    simp only [if_true, show ¬ ((123 : Nat) = 10) by decide, if_false]
    rw [ihA (level + 1) (125 :: (B ++ X)) ln (by omega)]
    simp only []
    rw [nestGo]
    simp only [show ¬ ((125 : Nat) = 123) by decide, show ¬ ((125 : Nat) = 10) by decide, if_false, if_true]
    have hne : ¬ (level = 0) := by omega
    simp only [Nat.add_sub_cancel, hne, if_false]
    rw [ihB level X ln hl]
    simp

/-- `get_token_nest('{', '}')` on `{` balanced-text `}` rest -/
theorem getTokenNest_bal (T : List Nat) (hT : Bal T) (R : List Nat) (ln : Int) :
    getTokenNest 123 125 (123 :: (T ++ 125 :: R)) ln = (T, ⟨R, ln⟩) := by
  unfold getTokenNest
  simp only [if_true]
  rw [nestGo_bal hT 1 (125 :: R) ln (Nat.le_refl _), nestGo]
  simp


/-! ## the end of a chord -/

/-- the text after the closing `'`: optional length, `,gate`, `,velocity`, then the blank -/
def chordTail (len : Option Core.LenExpr) (q v : Option Int) (R : List Nat) : List Nat :=
  Ex2.lenText len ++ (match q, v with
    | none, none => 32 :: R
    | some x, none => 44 :: (printInt x ++ 32 :: R)
    | q, some y => 44 :: (optText q ++ 44 :: (printInt y ++ 32 :: R)))

/-- where the cursor stands after the chord end: without arguments the blank is consumed by the reader -/
def afterChord (q v : Option Int) (R : List Nat) : List Nat :=
  match q, v with
  | none, none => R
  | _, _ => 32 :: R

/-- a chord length must be recognisable as one: it starts with a digit or `^` -/
def ChordLenOK (len : Option Core.LenExpr) : Prop :=
  match len with
  | none => True
  | some L => ∃ c r, Ex2.lenText (some L) = c :: r ∧ (isDigit c = true ∨ c = 94)

theorem lenText_none : Ex2.lenText none = [] := rfl

/-- the arguments after the length -/
def argTail (q v : Option Int) (R : List Nat) : List Nat :=
  match q, v with
  | none, none => 32 :: R
  | some x, none => 44 :: (printInt x ++ 32 :: R)
  | q, some y => 44 :: (optText q ++ 44 :: (printInt y ++ 32 :: R))

theorem chordTail_eq (len : Option Core.LenExpr) (q v : Option Int) (R : List Nat) :
    chordTail len q v R = Ex2.lenText len ++ argTail q v R := by
  unfold chordTail argTail; cases q <;> cases v <;> rfl

theorem harmLen_none (T : List Nat) (ln : Int) (h : ∀ c r, T = c :: r → isDigit c = false ∧ c ≠ 94) :
    harmLen ⟨T, ln⟩ = (.none, ⟨T, ln⟩) := by
  unfold harmLen
  cases T with
  | nil => simp
  | cons c r => obtain ⟨h1, h2⟩ := h c r rfl; simp [peek, h1, h2]

theorem harmLen_some (len : Option Core.LenExpr) (X : List Nat) (ln : Int) (L : Core.LenExpr) (hlen : len = some L)
    (hc : ChordLenOK len) :
    harmLen ⟨Ex2.lenText len ++ X, ln⟩ = (.str ((Cur.mk (Ex2.lenText len ++ X) ln).noteLength).1, ((Cur.mk (Ex2.lenText len ++ X) ln).noteLength).2) := by
  subst hlen
  obtain ⟨c, r, hcr, hcd⟩ := hc
  unfold harmLen
  have hp : (isDigit (peek (Ex2.lenText (some L) ++ X)) = true ∨ peek (Ex2.lenText (some L) ++ X) = 94) ∧ Ex2.lenText (some L) ++ X ≠ [] := by
    rw [hcr]; simpa [peek] using hcd
  rw [if_pos hp]

theorem harmArgs_next (lnv : SV) (R : List Nat) (ln : Int) (hR : Next R) :
    harmArgs lnv ⟨R, ln⟩ = (tok .harmonyEnd 0 [lnv, .int (-1), .none], ⟨R, ln⟩) := by
  unfold harmArgs
  rcases hR with rfl | ⟨c, r, rfl, hs⟩
  · rfl
  · simp only []
    split
    · rename_i heq; simp at heq; exact absurd heq.1 hs.2.2.2.2.2.2.2.2.1
    · rfl

theorem harmArgs_q (lnv : SV) (x : Int) (R : List Nat) (ln : Int) :
    harmArgs lnv ⟨44 :: (printInt x ++ 32 :: R), ln⟩ = (tok .harmonyEnd 0 [lnv, .int x, .none], ⟨32 :: R, ln⟩) := by
  unfold harmArgs
  simp only []
  rw [getInt_printInt (-1) x (32 :: R) (numEnd_blank R)]
  rfl

theorem harmArgs_qv (lnv : SV) (q : Option Int) (y : Int) (R : List Nat) (ln : Int) :
    harmArgs lnv ⟨44 :: (optText q ++ 44 :: (printInt y ++ 32 :: R)), ln⟩ =
      (tok .harmonyEnd 0 [lnv, Ex2.optInt (-1) q, .int y], ⟨32 :: R, ln⟩) := by
  unfold harmArgs
  simp only []
  have hq : getInt (-1) (optText q ++ 44 :: (printInt y ++ 32 :: R)) = (q.getD (-1), 44 :: (printInt y ++ 32 :: R)) := by
    cases q with
    | none => exact getInt_none (-1) _ (by intro c r h; cases h; decide)
    | some x => exact getInt_printInt (-1) x _ (numEnd_comma _)
  rw [hq]
  simp only []
  rw [getInt_printInt (-1) y (32 :: R) (numEnd_blank R)]
  cases q <;> rfl

theorem readHarmonyEnd_print (len : Option Core.LenExpr) (q v : Option Int) (R : List Nat) (ln : Int)
    (hl : Ex2.lenOK len) (hc : ChordLenOK len) (hR : Next R) :
    readHarmonyEnd ⟨chordTail len q v R, ln⟩ =
      (tok .harmonyEnd 0 [Ex2.lenSV len, Ex2.optInt (-1) q, Ex2.velSV v], ⟨afterChord q v R, ln⟩) := by
  have hL := lenText_lenchars len hl
  have hstop44 : Stop 44 := by unfold Stop; decide
  have hnb44 : (44 : Nat) ≠ 32 ∧ (44 : Nat) ≠ 9 ∧ (44 : Nat) ≠ 47 := by decide
  unfold readHarmonyEnd
  rw [chordTail_eq]
  cases len with
  | none =>
    simp only [lenText_none, List.nil_append]
    cases q with
    | none =>
      cases v with
      | none =>
        simp only [argTail]
        rw [harmLen_none _ ln (by intro c r h; cases h; decide)]
        simp only []
        rcases hR with rfl | ⟨c, r, rfl, hs⟩
        · rw [skipSpace_blank_nil, harmArgs_next _ [] ln (Or.inl rfl)]; rfl
        · rw [skipSpace_blank c r ln hs.nonblank, harmArgs_next _ _ ln (Or.inr ⟨c, r, rfl, hs⟩)]; rfl
      | some y =>
        simp only [argTail]
        rw [harmLen_none _ ln (by intro c r h; cases h; decide)]
        simp only []
        rw [skipSpace_nonblank 44 _ ln hnb44, harmArgs_qv]; rfl
    | some x =>
      cases v with
      | none =>
        simp only [argTail]
        rw [harmLen_none _ ln (by intro c r h; cases h; decide)]
        simp only []
        rw [skipSpace_nonblank 44 _ ln hnb44, harmArgs_q]; rfl
      | some y =>
        simp only [argTail]
        rw [harmLen_none _ ln (by intro c r h; cases h; decide)]
        simp only []
        rw [skipSpace_nonblank 44 _ ln hnb44, harmArgs_qv]; rfl
  | some L =>
    rw [harmLen_some (some L) _ ln L rfl hc]
    cases q with
    | none =>
      cases v with
      | none =>
        simp only [argTail]
        rw [noteLength_then_blank _ hL R ln (next_stop_or_nil hR)]
        simp only []
        rw [next_skipSpace R ln hR, harmArgs_next _ R ln hR]; rfl
      | some y =>
        simp only [argTail]
        rw [noteLength_then_stop _ hL 44 _ ln hstop44]
        simp only []
        rw [skipSpace_nonblank 44 _ ln hnb44, harmArgs_qv]; rfl
    | some x =>
      cases v with
      | none =>
        simp only [argTail]
        rw [noteLength_then_stop _ hL 44 _ ln hstop44]
        simp only []
        rw [skipSpace_nonblank 44 _ ln hnb44, harmArgs_q]; rfl
      | some y =>
        simp only [argTail]
        rw [noteLength_then_stop _ hL 44 _ ln hstop44]
        simp only []
        rw [skipSpace_nonblank 44 _ ln hnb44, harmArgs_qv]; rfl

/-! ## the extended printer: chords, `Sub`, tuplets -/

mutual
/-- the text of a command followed by `R`; the commands of `printK` unchanged, plus chords, `Sub{…}` and tuplets `{…}L` -/
def printK2 : Cmd → List Nat → List Nat
  | .loop n b hb k, R =>
    91 :: (decDigits n ++ 32 :: printKL2 b (if hb then 58 :: 32 :: printKL2 k (93 :: 32 :: R) else 93 :: 32 :: R))
  | .sub b, R => 83 :: 117 :: 98 :: 123 :: printKL2 b (125 :: 32 :: R)
  | .div b len, R => 123 :: printKL2 b (125 :: (Ex2.lenText len ++ 32 :: R))
  | .chord b len q v, R => 39 :: printKL2 b (39 :: chordTail len q v R)
  | c, R => printK c R
def printKL2 : List Cmd → List Nat → List Nat
  | [], R => R
  | c :: cs, R => printK2 c (printKL2 cs R)
end

theorem optText_plain (o : Option Int) : ∀ c ∈ optText o, Plain c := by
  intro c hc
  cases o with
  | none => simp [optText] at hc
  | some x =>
    simp only [optText, printInt] at hc
    split at hc
    · rcases List.mem_cons.mp hc with rfl | h
      · unfold Plain; decide
      · have := digit_facts c (decDigits_digit _ c h); unfold Plain; omega
    · have := digit_facts c (decDigits_digit _ c hc); unfold Plain; omega

theorem lenchar_plain (c : Nat) (h : isLenChar c = true) : Plain c := by
  unfold Plain
  simp only [isLenChar, isDigit, Bool.or_eq_true, Bool.and_eq_true, decide_eq_true_eq] at h
  omega

theorem printInt_plain (x : Int) : ∀ c ∈ printInt x, Plain c := optText_plain (some x)


theorem slots_append (q v t o : Option Int) (R : List Nat) : slots q v t o R = slots q v t o [] ++ R := by
  simp [slots]

theorem chordTail_append (len : Option Core.LenExpr) (q v : Option Int) (R : List Nat) : chordTail len q v R = chordTail len q v [] ++ R := by
  unfold chordTail; cases q <;> cases v <;> simp

theorem printK_append (c : Cmd) (R : List Nat) (hl : ∀ n b hb k, c ≠ .loop n b hb k) : printK c R = printK c [] ++ R := by
  cases c
  case loop n b hb k => exact absurd rfl (hl n b hb k)
  case note => simp only [printK]; rw [slots_append]; simp
  case octRel d => simp only [printK]; split <;> simp
  case velRel d => simp only [printK]; split <;> simp
  all_goals simp [printK]

mutual
theorem printK2_append (c : Cmd) (R : List Nat) : printK2 c R = printK2 c [] ++ R := by
  cases c
  case loop n b hb k =>
    simp only [printK2]
    cases hb with
    | true =>
      simp only [if_true]
      rw [printKL2_append b (58 :: 32 :: printKL2 k (93 :: 32 :: R)), printKL2_append k (93 :: 32 :: R),
        printKL2_append b (58 :: 32 :: printKL2 k [93, 32]), printKL2_append k [93, 32]]
      simp
    | false =>
      simp only [Bool.false_eq_true, if_false]
      rw [printKL2_append b (93 :: 32 :: R), printKL2_append b [93, 32]]
      simp
  case sub b =>
    simp only [printK2]
    rw [printKL2_append b (125 :: 32 :: R), printKL2_append b [125, 32]]
    simp
  case div b len =>
    simp only [printK2]
    rw [printKL2_append b (125 :: (Ex2.lenText len ++ 32 :: R)), printKL2_append b (125 :: (Ex2.lenText len ++ [32]))]
    simp
  case chord b len q v =>
    simp only [printK2]
    rw [printKL2_append b (39 :: chordTail len q v R), printKL2_append b (39 :: chordTail len q v []), chordTail_append]
    simp
  all_goals (simp only [printK2]; exact printK_append _ R (by intro n b hb k h; cases h))
theorem printKL2_append (cs : List Cmd) (R : List Nat) : printKL2 cs R = printKL2 cs [] ++ R := by
  cases cs with
  | nil => simp [printKL2]
  | cons c cs =>
    simp only [printKL2]
    rw [printK2_append c (printKL2 cs R), printKL2_append cs R, printK2_append c (printKL2 cs [])]
    simp
end


-- the fragment of the extended printer
mutual
def pwf2 : Cmd → Prop
  | .loop _ b hb k => pwfL2 b ∧ pwfL2 k ∧ (hb = true ∨ k = [])
  | .sub b => pwfL2 b
  | .div b len => pwfL2 b ∧ Ex2.lenOK len
  | .chord b len _ _ => pwfL2 b ∧ b.all Ex2.simple = true ∧ Ex2.lenOK len ∧ ChordLenOK len
  | .note semi acc nat len q v t o => pwf (.note semi acc nat len q v t o)
  | .rest len dir => pwf (.rest len dir)
  | .setL len => pwf (.setL len)
  | .setO n => pwf (.setO n)
  | .octRel d => pwf (.octRel d)
  | .setV n => pwf (.setV n)
  | .velRel d => pwf (.velRel d)
  | .setQ n => pwf (.setQ n)
  | .setT n => pwf (.setT n)
  | _ => False
def pwfL2 : List Cmd → Prop
  | [] => True
  | c :: cs => pwf2 c ∧ pwfL2 cs
end

theorem plain_of_list (L : List Nat) (allowed : List Nat) (hall : ∀ c ∈ allowed, Plain c) (h : ∀ c ∈ L, c ∈ allowed) : ∀ c ∈ L, Plain c :=
  fun c hc => hall c (h c hc)

theorem accText_plain (acc : Int) (nat : Bool) : ∀ c ∈ accText acc nat, Plain c := by
  intro c hc
  simp only [accText, List.mem_append] at hc
  rcases hc with h | h
  · split at h <;> (rw [List.mem_replicate] at h; rw [h.2]; unfold Plain; decide)
  · split at h <;> simp at h; subst h; unfold Plain; decide

theorem lenText_plain (len : Option Core.LenExpr) (h : Ex2.lenOK len) : ∀ c ∈ Ex2.lenText len, Plain c :=
  fun c hc => lenchar_plain c (lenText_lenchars len h c hc)

theorem slots_plain (q v t o : Option Int) : ∀ c ∈ slots q v t o [], Plain c := by
  intro c hc
  simp only [slots, List.mem_cons, List.mem_append, List.not_mem_nil, or_false] at hc
  have p44 : Plain 44 := by unfold Plain; decide
  have p32 : Plain 32 := by unfold Plain; decide
  rcases hc with rfl | h | rfl | h | rfl | h | rfl | h | rfl
  · exact p44
  · exact optText_plain q c h
  · exact p44
  · exact optText_plain v c h
  · exact p44
  · exact optText_plain t c h
  · exact p44
  · exact optText_plain o c h
  · exact p32


theorem letterOf_plain (semi : Int) : Plain (letterOf semi) := by
  rcases letterOf_cases semi with h | h | h | h | h | h | h <;> (rw [h]; unfold Plain; decide)

/-- the printed text of a simple (non-loop) command of the old fragment contains no brace and no line break -/
theorem printK_plain (c : Cmd) (hw : pwf c) (hl : ∀ n b hb k, c ≠ .loop n b hb k) : ∀ x ∈ printK c [], Plain x := by
  have p32 : Plain 32 := by unfold Plain; decide
  cases c
  case loop n b hb k => exact absurd rfl (hl n b hb k)
  case note semi acc nat len q v t o =>
    simp only [pwf] at hw
    intro x hx
    simp only [printK, List.mem_cons, List.mem_append] at hx
    rcases hx with rfl | h | h | h
    · exact letterOf_plain semi
    · exact accText_plain acc nat x h
    · exact lenText_plain len hw.2.1 x h
    · exact slots_plain q v t o x h
  case rest len dir =>
    simp only [pwf] at hw
    intro x hx
    simp only [printK, restSign, List.mem_cons, List.mem_append, List.not_mem_nil, or_false] at hx
    rcases hx with rfl | h | h | rfl
    · unfold Plain; decide
    · split at h <;> simp at h; subst h; unfold Plain; decide
    · exact lenText_plain len hw.2.1 x h
    · exact p32
  case setL len =>
    simp only [pwf] at hw
    intro x hx
    simp only [printK, List.mem_cons, List.mem_append, List.not_mem_nil, or_false] at hx
    rcases hx with rfl | h | rfl
    · unfold Plain; decide
    · exact lenText_plain len hw.1 x h
    · exact p32
  case setO n =>
    intro x hx
    simp only [printK, List.mem_cons, List.mem_append, List.not_mem_nil, or_false] at hx
    rcases hx with rfl | h | rfl
    · unfold Plain; decide
    · exact printInt_plain n x h
    · exact p32
  case setV n =>
    intro x hx
    simp only [printK, List.mem_cons, List.mem_append, List.not_mem_nil, or_false] at hx
    rcases hx with rfl | h | rfl
    · unfold Plain; decide
    · exact printInt_plain n x h
    · exact p32
  case setQ n =>
    intro x hx
    simp only [printK, List.mem_cons, List.mem_append, List.not_mem_nil, or_false] at hx
    rcases hx with rfl | h | rfl
    · unfold Plain; decide
    · exact printInt_plain n x h
    · exact p32
  case setT n =>
    intro x hx
    simp only [printK, List.mem_cons, List.mem_append, List.not_mem_nil, or_false] at hx
    rcases hx with rfl | h | rfl
    · unfold Plain; decide
    · exact printInt_plain n x h
    · exact p32
  case octRel d =>
    intro x hx
    simp only [printK, List.mem_cons, List.not_mem_nil, or_false] at hx
    rcases hx with rfl | rfl
    · split <;> (unfold Plain; decide)
    · exact p32
  case velRel d =>
    intro x hx
    simp only [printK, List.mem_cons, List.not_mem_nil, or_false] at hx
    rcases hx with rfl | rfl
    · split <;> (unfold Plain; decide)
    · exact p32
  all_goals exact absurd hw (by simp [pwf])


theorem Bal.cons_plain {T : List Nat} (c : Nat) (hc : Plain c) (h : Bal T) : Bal (c :: T) := Bal.plain c T hc h

theorem Bal.plain_append (L : List Nat) (hL : ∀ c ∈ L, Plain c) {T : List Nat} (h : Bal T) : Bal (L ++ T) :=
  (Bal.of_plain L hL).append h

theorem chordTail_plain (len : Option Core.LenExpr) (q v : Option Int) (hl : Ex2.lenOK len) : ∀ c ∈ chordTail len q v [], Plain c := by
  have p44 : Plain 44 := by unfold Plain; decide
  have p32 : Plain 32 := by unfold Plain; decide
  intro c hc
  rw [chordTail_eq] at hc
  rcases List.mem_append.mp hc with h | h
  · exact lenText_plain len hl c h
  · unfold argTail at h
    cases q <;> cases v <;> simp only [List.mem_cons, List.mem_append, List.not_mem_nil, or_false] at h
    · subst h; exact p32
    · rcases h with rfl | h | rfl | h | rfl
      · exact p44
      · exact optText_plain none c h
      · exact p44
      · exact printInt_plain _ c h
      · exact p32
    · rcases h with rfl | h | rfl
      · exact p44
      · exact printInt_plain _ c h
      · exact p32
    · rcases h with rfl | h | rfl | h | rfl
      · exact p44
      · exact optText_plain (some _) c h
      · exact p44
      · exact printInt_plain _ c h
      · exact p32

mutual
theorem printK2_bal (c : Cmd) (hw : pwf2 c) : Bal (printK2 c []) := by
  have p32 : Plain 32 := by unfold Plain; decide
  cases c
  case loop n b hb k =>
    simp only [pwf2] at hw
    obtain ⟨hb1, hk1, _⟩ := hw
    simp only [printK2]
    refine Bal.cons_plain 91 (by unfold Plain; decide) (Bal.plain_append _ (fun c hc => by
      have := digit_facts c (decDigits_digit n c hc); unfold Plain; omega) (Bal.cons_plain 32 p32 ?_))
    have hend : Bal [93, 32] := Bal.of_plain _ (by intro c hc; simp at hc; rcases hc with rfl | rfl <;> (unfold Plain; decide))
    cases hb with
    | true =>
      simp only [if_true]
      rw [printKL2_append b, printKL2_append k]
      exact (printKL2_bal b hb1).append (Bal.cons_plain 58 (by unfold Plain; decide) (Bal.cons_plain 32 p32 ((printKL2_bal k hk1).append hend)))
    | false =>
      simp only [Bool.false_eq_true, if_false]
      rw [printKL2_append b]
      exact (printKL2_bal b hb1).append hend
  case sub b =>
    simp only [pwf2] at hw
    simp only [printK2]
    rw [printKL2_append b]
    refine Bal.cons_plain 83 (by unfold Plain; decide) (Bal.cons_plain 117 (by unfold Plain; decide) (Bal.cons_plain 98 (by unfold Plain; decide) ?_))
    exact Bal.group _ _ (printKL2_bal b hw) (Bal.of_plain [32] (by intro c hc; simp at hc; subst hc; exact p32))
  case div b len =>
    simp only [pwf2] at hw
    simp only [printK2]
    rw [printKL2_append b]
    exact Bal.group _ _ (printKL2_bal b hw.1) (Bal.plain_append _ (lenText_plain len hw.2) (Bal.of_plain [32] (by intro c hc; simp at hc; subst hc; exact p32)))
  case chord b len q v =>
    simp only [pwf2] at hw
    simp only [printK2]
    rw [printKL2_append b]
    exact Bal.cons_plain 39 (by unfold Plain; decide) ((printKL2_bal b hw.1).append
      (Bal.cons_plain 39 (by unfold Plain; decide) (Bal.of_plain _ (chordTail_plain len q v hw.2.2.1))))
  case note semi acc nat len q v t o =>
    simp only [pwf2] at hw; simp only [printK2]
    exact Bal.of_plain _ (printK_plain _ hw (by intro n b hb k h; cases h))
  case rest len dir =>
    simp only [pwf2] at hw; simp only [printK2]
    exact Bal.of_plain _ (printK_plain _ hw (by intro n b hb k h; cases h))
  case setL len =>
    simp only [pwf2] at hw; simp only [printK2]
    exact Bal.of_plain _ (printK_plain _ hw (by intro n b hb k h; cases h))
  case setO n =>
    simp only [pwf2] at hw; simp only [printK2]
    exact Bal.of_plain _ (printK_plain _ hw (by intro n b hb k h; cases h))
  case octRel d =>
    simp only [pwf2] at hw; simp only [printK2]
    exact Bal.of_plain _ (printK_plain _ hw (by intro n b hb k h; cases h))
  case setV n =>
    simp only [pwf2] at hw; simp only [printK2]
    exact Bal.of_plain _ (printK_plain _ hw (by intro n b hb k h; cases h))
  case velRel d =>
    simp only [pwf2] at hw; simp only [printK2]
    exact Bal.of_plain _ (printK_plain _ hw (by intro n b hb k h; cases h))
  case setQ n =>
    simp only [pwf2] at hw; simp only [printK2]
    exact Bal.of_plain _ (printK_plain _ hw (by intro n b hb k h; cases h))
  case setT n =>
    simp only [pwf2] at hw; simp only [printK2]
    exact Bal.of_plain _ (printK_plain _ hw (by intro n b hb k h; cases h))
  all_goals exact absurd hw (by simp [pwf2])
theorem printKL2_bal (cs : List Cmd) (hw : pwfL2 cs) : Bal (printKL2 cs []) := by
  cases cs with
  | nil => exact Bal.nil
  | cons c cs =>
    simp only [pwfL2] at hw
    simp only [printKL2]
    rw [printK2_append]
    exact (printK2_bal c hw.1).append (printKL2_bal cs hw.2)
end


/-! ## dispatch lemmas for `'`, `{` and `Sub` -/

theorem lex_chordBegin (tb : Int) (f : Nat) (cs : List Nat) (ln : Int) :
    lexLoop tb (f + 1) (39 :: cs) ln false = pre (tok .harmonyBegin 0 []) (lexLoop tb f cs ln true) := by
  rw [lexLoop]
  simp only [zen_ascii 39 (by decide)]
  simp (config := { decide := true }) only [if_false, if_true]
  cases lexLoop tb f cs ln true <;> rfl

theorem lex_chordEnd (tb : Int) (f : Nat) (cs : List Nat) (ln : Int) :
    lexLoop tb (f + 1) (39 :: cs) ln true =
      pre (readHarmonyEnd ⟨cs, ln⟩).1 (lexLoop tb f (readHarmonyEnd ⟨cs, ln⟩).2.s (readHarmonyEnd ⟨cs, ln⟩).2.line false) := by
  rw [lexLoop]
  simp only [zen_ascii 39 (by decide)]
  simp (config := { decide := true }) only [if_false, if_true]
  cases lexLoop tb f (readHarmonyEnd ⟨cs, ln⟩).2.s (readHarmonyEnd ⟨cs, ln⟩).2.line false <;> rfl

/-- the token of a `Sub{…}` block and of a tuplet, given the answers of the two nested calls -/
def subOut (ln : Int) (inner o : Option Out) : Option Out :=
  match inner, o with
  | some i, some o => some ⟨.mk .sub 0 0 none [] (some (.mk .lineNo 0 ln none [] none :: i.toks)) :: o.toks, i.errs ++ o.errs⟩
  | _, _ => none

def divOut (ln : Int) (L : List Nat) (inner o : Option Out) : Option Out :=
  match inner, o with
  | some i, some o =>
    some ⟨.mk .div (countDiv (.mk .lineNo 0 ln none [] none :: i.toks) 1 [] 0) 0 none [.str L] (some (.mk .lineNo 0 ln none [] none :: i.toks)) :: o.toks,
      i.errs ++ o.errs⟩
  | _, _ => none

theorem lex_sub (tb : Int) (f : Nat) (T R : List Nat) (ln : Int) (harm : Bool) (hT : Bal T) :
    lexLoop tb (f + 1) (83 :: 117 :: 98 :: 123 :: (T ++ 125 :: R)) ln harm =
      subOut ln (lexLoop tb f T ln false) (lexLoop tb f R ln harm) := by
  have hw : getWord (83 :: 117 :: 98 :: 123 :: (T ++ 125 :: R)) = (wSub, 123 :: (T ++ 125 :: R)) := by
    simp [getWord, takeWord, isWordChar, isUpper, isLower, isDigit, wSub]
  have he1 : startsWith wEnd1 (83 :: 117 :: 98 :: 123 :: (T ++ 125 :: R)) = false := by simp [startsWith, wEnd1, List.isPrefixOf]
  have he2 : startsWith wEnd2 (83 :: 117 :: 98 :: 123 :: (T ++ 125 :: R)) = false := by simp [startsWith, wEnd2, List.isPrefixOf]
  rw [lexLoop]
  simp only [zen_ascii 83 (by decide)]
  simp (config := { decide := true }) only [if_false, if_true, he1, he2, hw, true_or, Bool.false_eq_true, or_self]
  rw [skipSpace_nonblank 123 _ ln (by decide), getTokenNest_bal T hT R ln]
  simp only [subOut]
  cases lexLoop tb f T ln false <;> cases lexLoop tb f R ln harm <;> rfl

theorem lex_div (tb : Int) (f : Nat) (T L R : List Nat) (ln : Int) (harm : Bool) (hT : Bal T)
    (hL : ∀ c ∈ L, isLenChar c = true) (hR : R = [] ∨ ∃ c r', R = c :: r' ∧ Stop c) :
    lexLoop tb (f + 1) (123 :: (T ++ 125 :: (L ++ 32 :: R))) ln harm =
      divOut ln L (lexLoop tb f T ln false) (lexLoop tb f R ln harm) := by
  rw [lexLoop]
  simp only [zen_ascii 123 (by decide)]
  simp (config := { decide := true }) only [if_false, if_true]
  rw [getTokenNest_bal T hT _ ln, noteLength_then_blank L hL R ln hR]
  simp only [divOut]
  cases lexLoop tb f T ln false <;> cases lexLoop tb f R ln harm <;> rfl


/-! ## the program theorem in fuel-stable form -/

theorem start_more (c : Nat) (h : c = 39 ∨ c = 123 ∨ c = 83) : Start c := by
  unfold Start
  rcases h with h | h | h <;> (subst h; decide)

-- iterations of the main loop (of the call that reads the command) a printed command needs
mutual
def cost2 : Cmd → Nat
  | .loop _ b hb k => 2 + costL2 b + (if hb then 2 + costL2 k else 0) + 2
  | .sub b => costL2 b + 3
  | .div b _ => costL2 b + 2
  | .chord b _ _ _ => costL2 b + 3
  | c => cost c
def costL2 : List Cmd → Nat
  | [] => 0
  | c :: cs => cost2 c + costL2 cs
end

theorem simple_old (c : Cmd) (hs : Ex2.simple c = true) (hw : pwf2 c) :
    pwf c ∧ (∀ R, printK2 c R = printK c R) ∧ cost2 c = cost c := by
  cases c <;> simp_all [Ex2.simple, pwf2, printK2, cost2]

theorem printK2_next (c : Cmd) (hw : pwf2 c) (R : List Nat) (hR : Next R) : Next (printK2 c R) := by
  cases c
  case loop n b hb k => exact Or.inr ⟨91, _, rfl, start_of _ (by simp)⟩
  case sub b => exact Or.inr ⟨83, _, rfl, start_more _ (by simp)⟩
  case div b len => exact Or.inr ⟨123, _, rfl, start_more _ (by simp)⟩
  case chord b len q v => exact Or.inr ⟨39, _, rfl, start_more _ (by simp)⟩
  case note semi acc nat len q v t o => simp only [pwf2] at hw; simp only [printK2]; exact printK_next _ hw R hR
  case rest len dir => simp only [pwf2] at hw; simp only [printK2]; exact printK_next _ hw R hR
  case setL len => simp only [pwf2] at hw; simp only [printK2]; exact printK_next _ hw R hR
  case setO n => simp only [pwf2] at hw; simp only [printK2]; exact printK_next _ hw R hR
  case octRel d => simp only [pwf2] at hw; simp only [printK2]; exact printK_next _ hw R hR
  case setV n => simp only [pwf2] at hw; simp only [printK2]; exact printK_next _ hw R hR
  case velRel d => simp only [pwf2] at hw; simp only [printK2]; exact printK_next _ hw R hR
  case setQ n => simp only [pwf2] at hw; simp only [printK2]; exact printK_next _ hw R hR
  case setT n => simp only [pwf2] at hw; simp only [printK2]; exact printK_next _ hw R hR
  all_goals exact absurd hw (by simp [pwf2])

theorem printKL2_next (cs : List Cmd) (hw : pwfL2 cs) (R : List Nat) (hR : Next R) : Next (printKL2 cs R) := by
  induction cs with
  | nil => exact hR
  | cons c cs ih =>
    simp only [pwfL2] at hw
    exact printK2_next c hw.1 _ (ih hw.2)

/-- a command of the first fragment in front of a stable text -/
theorem stab_old (tb : Int) (c : Cmd) (hw : pwf c) (R : List Nat) (ln : Int) (harm : Bool) (K : Option Out) (b : Nat)
    (hR : Next R) (h : Stab tb R ln harm K b) :
    Stab tb (printK c R) ln harm (preL (Ex2.rawL (Ex2.toTrees c)) K) (b + cost c) := by
  intro F hF
  obtain ⟨f, rfl⟩ : ∃ f, F = cost c + f := ⟨F - cost c, by omega⟩
  rw [lex_printK tb c hw f R ln harm hR, h f (by omega)]

/-- the members of a chord in front of a stable text, under either chord flag -/
theorem stab_simpleL (tb : Int) (cs : List Cmd) (hw : pwfL2 cs) (hs : cs.all Ex2.simple = true) (R : List Nat) (ln : Int) (harm : Bool)
    (K : Option Out) (b : Nat) (hR : Next R) (h : Stab tb R ln harm K b) :
    Stab tb (printKL2 cs R) ln harm (preL (Ex2.rawL (Ex2.toTreesL cs)) K) (b + costL2 cs) := by
  induction cs with
  | nil => simpa [printKL2, costL2, Ex2.toTreesL, Ex2.rawL, preL_nil] using h
  | cons c cs ih =>
    simp only [pwfL2] at hw
    simp only [List.all_cons, Bool.and_eq_true] at hs
    obtain ⟨ho, hp, hc⟩ := simple_old c hs.1 hw.1
    have h1 := ih hw.2 hs.2
    have h2 := stab_old tb c ho _ ln harm _ _ (printKL2_next cs hw.2 R hR) h1
    simp only [printKL2, costL2, Ex2.toTreesL, rawL_append, preL_append, hp, hc]
    exact h2.mono _ (by omega)

theorem Stab.loopEnd {tb : Int} {R : List Nat} {ln : Int} {harm : Bool} {K : Option Out} {b : Nat} (h : Stab tb R ln harm K b) :
    Stab tb (93 :: 32 :: R) ln harm (pre (tok .loopEnd 0 []) K) (b + 2) := by
  intro F hF
  obtain ⟨f, rfl⟩ : ∃ f, F = f + 1 + 1 := ⟨F - 2, by omega⟩
  rw [loopEnd_step, h f (by omega)]

theorem Stab.loopBreak {tb : Int} {R : List Nat} {ln : Int} {harm : Bool} {K : Option Out} {b : Nat} (h : Stab tb R ln harm K b) :
    Stab tb (58 :: 32 :: R) ln harm (pre (tok .loopBreak 0 []) K) (b + 2) := by
  intro F hF
  obtain ⟨f, rfl⟩ : ∃ f, F = f + 1 + 1 := ⟨F - 2, by omega⟩
  rw [loopBreak_step, h f (by omega)]

theorem Stab.loopBegin {tb : Int} {R : List Nat} {ln : Int} {harm : Bool} {K : Option Out} {b : Nat} (n : Nat) (h : Stab tb R ln harm K b) :
    Stab tb (91 :: (decDigits n ++ 32 :: R)) ln harm (pre (tok .loopBegin 0 [.int n]) K) (b + 2) := by
  intro F hF
  obtain ⟨f, rfl⟩ : ∃ f, F = f + 1 + 1 := ⟨F - 2, by omega⟩
  rw [lex_loopBegin, readLoop_print tb n _ ln (numEnd_blank _)]
  simp only []
  rw [lex_blank, h f (by omega)]

theorem subOut_eq (X : List Tok) (K : Option Out) :
    subOut 0 (preL X (some ⟨[], []⟩)) K = preL [Tok.mk .sub 0 0 none [] (some (Ex2.lineTok :: X))] K := by
  cases K <;> simp [subOut, preL, Ex2.lineTok]

theorem divOut_eq (L : List Nat) (X : List Tok) (K : Option Out) :
    divOut 0 L (preL X (some ⟨[], []⟩)) K =
      preL [Tok.mk .div (countDiv (Ex2.lineTok :: X) 1 [] 0) 0 none [.str L] (some (Ex2.lineTok :: X))] K := by
  cases K <;> simp [divOut, preL, Ex2.lineTok]

theorem stab_afterChord {tb : Int} {R : List Nat} {K : Option Out} {b : Nat} (q v : Option Int) (h : Stab tb R 0 false K b) :
    Stab tb (afterChord q v R) 0 false K (b + 1) := by
  unfold afterChord
  cases q <;> cases v
  · exact h.mono _ (by omega)
  all_goals exact h.blank

/-- the count the lexer stores in a tuplet token is the spec's element count (proved below) -/
def CountOK : Prop := ∀ b : List Cmd, pwfL2 b → countDiv (Ex2.lineTok :: Ex2.rawL (Ex2.toTreesL b)) 1 [] 0 = Core.countElems b

mutual
theorem stab_printK2 (tb : Int) (hcd : CountOK) (c : Cmd) (hw : pwf2 c) : ∀ (R : List Nat) (K : Option Out) (b : Nat), Next R →
    Stab tb R 0 false K b → Stab tb (printK2 c R) 0 false (preL (Ex2.rawL (Ex2.toTrees c)) K) (b + cost2 c) := by
  intro R K b hR h
  cases c
  case loop n body hb k =>
    simp only [pwf2] at hw
    obtain ⟨hwb, hwk, hbk⟩ := hw
    simp only [printK2, cost2, Ex2.toTrees]
    have hraw : Ex2.rawL [Loop.Tree.loop n (Ex2.toTreesL body) hb (Ex2.toTreesL k)] =
        tok .loopBegin 0 [.int n] :: (Ex2.rawL (Ex2.toTreesL body) ++ ((if hb then [tok .loopBreak 0 []] ++ Ex2.rawL (Ex2.toTreesL k) else []) ++ [tok .loopEnd 0 []])) := by
      simp [Ex2.rawL, Ex2.rawT]
    rw [hraw]
    cases hb with
    | true =>
      simp only [if_true]
      have h1 := h.loopEnd
      have h2 := stab_printKL2 tb hcd k hwk _ _ _ (next_loopEnd R) h1
      have h3 := h2.loopBreak
      have h4 := stab_printKL2 tb hcd body hwb _ _ _ (next_loopBreak _) h3
      have h5 := h4.loopBegin n
      simp only [preL_cons, preL_append, preL_nil, List.cons_append, List.nil_append]
      exact h5.mono _ (by omega)
    | false =>
      have hk : k = [] := by
        rcases hbk with h | h
        · cases h
        · exact h
      subst hk
      simp only [Bool.false_eq_true, if_false, List.nil_append]
      have h1 := h.loopEnd
      have h4 := stab_printKL2 tb hcd body hwb _ _ _ (next_loopEnd R) h1
      have h5 := h4.loopBegin n
      simp only [preL_cons, preL_append, preL_nil, List.cons_append, List.nil_append]
      exact h5.mono _ (by omega)
  case sub body =>
    simp only [pwf2] at hw
    simp only [printK2, cost2, Ex2.toTrees, rawL_leaf]
    rw [printKL2_append]
    have hin := stab_printKL2 tb hcd body hw [] (some ⟨[], []⟩) 1 (Or.inl rfl) (Stab.nil tb 0 false)
    have hout := h.blank
    intro F hF
    obtain ⟨f, rfl⟩ : ∃ f, F = f + 1 := ⟨F - 1, by omega⟩
    rw [lex_sub tb f _ _ 0 false (printKL2_bal body hw), hin f (by omega), hout f (by omega), subOut_eq]
  case div body len =>
    simp only [pwf2] at hw
    simp only [printK2, cost2, Ex2.toTrees, rawL_leaf]
    rw [printKL2_append]
    have hin := stab_printKL2 tb hcd body hw.1 [] (some ⟨[], []⟩) 1 (Or.inl rfl) (Stab.nil tb 0 false)
    intro F hF
    obtain ⟨f, rfl⟩ : ∃ f, F = f + 1 := ⟨F - 1, by omega⟩
    rw [lex_div tb f _ _ _ 0 false (printKL2_bal body hw.1) (lenText_lenchars len hw.2) (next_stop_or_nil hR),
      hin f (by omega), h f (by omega), divOut_eq, hcd body hw.1]
  case chord body len q v =>
    simp only [pwf2] at hw
    obtain ⟨hwb, hsb, hl, hc⟩ := hw
    simp only [printK2, cost2, Ex2.toTrees]
    have h1 := stab_afterChord q v h
    have h2 : Stab tb (39 :: chordTail len q v R) 0 true (pre (tok .harmonyEnd 0 [Ex2.lenSV len, Ex2.optInt (-1) q, Ex2.velSV v]) K) (b + 1 + 1) := by
      refine Stab.step _ ?_ h1
      intro f
      rw [lex_chordEnd, readHarmonyEnd_print len q v R 0 hl hc hR]
    have h3 := stab_simpleL tb body hwb hsb _ 0 true _ _ (Or.inr ⟨39, _, rfl, start_more _ (by simp)⟩) h2
    have h4 := Stab.step (tok .harmonyBegin 0 []) (fun f => lex_chordBegin tb f (printKL2 body (39 :: chordTail len q v R)) 0) h3
    have hraw : Ex2.rawL (Loop.Tree.leaf (tok .harmonyBegin 0 []) :: (Ex2.toTreesL body ++
        [Loop.Tree.leaf (tok .harmonyEnd 0 [Ex2.lenSV len, Ex2.optInt (-1) q, Ex2.velSV v])])) =
        tok .harmonyBegin 0 [] :: (Ex2.rawL (Ex2.toTreesL body) ++ [tok .harmonyEnd 0 [Ex2.lenSV len, Ex2.optInt (-1) q, Ex2.velSV v]]) := by
      simp [Ex2.rawL, Ex2.rawT, rawL_append]
    simp only [List.cons_append, List.nil_append, hraw, preL_append, preL_cons, preL_nil]
    refine Stab.mono h4 (b + (costL2 body + 3)) ?_
    omega
  case note semi acc nat len q v t o =>
    simp only [pwf2] at hw; simp only [printK2, cost2]; exact stab_old tb _ hw R 0 false K b hR h
  case rest len dir =>
    simp only [pwf2] at hw; simp only [printK2, cost2]; exact stab_old tb _ hw R 0 false K b hR h
  case setL len =>
    simp only [pwf2] at hw; simp only [printK2, cost2]; exact stab_old tb _ hw R 0 false K b hR h
  case setO n =>
    simp only [pwf2] at hw; simp only [printK2, cost2]; exact stab_old tb _ hw R 0 false K b hR h
  case octRel d =>
    simp only [pwf2] at hw; simp only [printK2, cost2]; exact stab_old tb _ hw R 0 false K b hR h
  case setV n =>
    simp only [pwf2] at hw; simp only [printK2, cost2]; exact stab_old tb _ hw R 0 false K b hR h
  case velRel d =>
    simp only [pwf2] at hw; simp only [printK2, cost2]; exact stab_old tb _ hw R 0 false K b hR h
  case setQ n =>
    simp only [pwf2] at hw; simp only [printK2, cost2]; exact stab_old tb _ hw R 0 false K b hR h
  case setT n =>
    simp only [pwf2] at hw; simp only [printK2, cost2]; exact stab_old tb _ hw R 0 false K b hR h
  all_goals exact absurd hw (by simp [pwf2])
theorem stab_printKL2 (tb : Int) (hcd : CountOK) (cs : List Cmd) (hw : pwfL2 cs) : ∀ (R : List Nat) (K : Option Out) (b : Nat), Next R →
    Stab tb R 0 false K b → Stab tb (printKL2 cs R) 0 false (preL (Ex2.rawL (Ex2.toTreesL cs)) K) (b + costL2 cs) := by
  intro R K b hR h
  cases cs with
  | nil => simpa [printKL2, costL2, Ex2.toTreesL, Ex2.rawL, preL_nil] using h
  | cons c cs =>
    simp only [pwfL2] at hw
    have h1 := stab_printKL2 tb hcd cs hw.2 R K b hR h
    have h2 := stab_printK2 tb hcd c hw.1 _ _ _ (printKL2_next cs hw.2 R hR) h1
    simp only [printKL2, costL2, Ex2.toTreesL, rawL_append, preL_append]
    exact h2.mono _ (by omega)
end


/-! ## the element count of a tuplet -/

theorem countChar_append (a b : List Nat) (c : Nat) : countChar (a ++ b) c = countChar a c + countChar b c := by
  simp [countChar, List.filter_append]

theorem countChar_none (a : List Nat) (c : Nat) (h : ∀ x ∈ a, x ≠ c) : countChar a c = 0 := by
  have : a.filter (· = c) = [] := by
    rw [List.filter_eq_nil_iff]
    intro x hx
    simpa using h x hx
  simp [countChar, this]

theorem render_no_hat (p : Len.PartSyn) (hd : ∀ c ∈ p.digs, Len.isDigit c = true) : ∀ x ∈ Len.render p, x ≠ 94 := by
  intro x hx
  simp only [Len.render, List.mem_append, List.mem_replicate] at hx
  rcases hx with h | h | h | h
  · split at h <;> simp at h; omega
  · split at h <;> simp at h; omega
  · have := hd x h; simp only [Len.isDigit, Bool.and_eq_true, decide_eq_true_eq] at this; omega
  · omega

theorem countChar_segs (ps : List (Nat × Len.PartSyn)) (hsep : ∀ sp ∈ ps, sp.1 = 94 ∨ sp.1 = 43) (hwf : ∀ sp ∈ ps, sp.2.wf) :
    countChar (Len.segs ps) 94 = ((ps.filter (fun p => p.1 == 94)).length : Int) := by
  induction ps with
  | nil => simp [Len.segs, countChar]
  | cons sp rest ih =>
    obtain ⟨sep, p⟩ := sp
    have h1 := hsep (sep, p) List.mem_cons_self
    have h2 := hwf (sep, p) List.mem_cons_self
    have ih' := ih (fun x hx => hsep x (List.mem_cons_of_mem _ hx)) (fun x hx => hwf x (List.mem_cons_of_mem _ hx))
    have e : Len.segs ((sep, p) :: rest) = [sep] ++ (Len.render p ++ Len.segs rest) := rfl
    rw [e, countChar_append, countChar_append, countChar_none (Len.render p) 94 (render_no_hat p h2.1), ih']
    rcases h1 with h | h <;> (simp only at h; subst h; simp [countChar]; try omega)

theorem countChar_lenText (len : Option Core.LenExpr) (h : Ex2.lenOK len) : countChar (Ex2.lenText len) 94 = Core.hats len := by
  cases len with
  | none => simp [Ex2.lenText, countChar, Core.hats]
  | some L =>
    obtain ⟨hd, _, hsep, hwf, _⟩ := h
    simp only [Ex2.lenText, Core.hats]
    rw [countChar_append, countChar_none _ 94 (render_no_hat L.head hd), countChar_segs L.parts hsep hwf]
    simp

theorem pwf_lenOK_note {semi acc nat len q v t o} (h : pwf (.note semi acc nat len q v t o)) : Ex2.lenOK len := by
  simp only [pwf] at h; exact h.2.1
theorem pwf_lenOK_rest {len dir} (h : pwf (.rest len dir)) : Ex2.lenOK len := by
  simp only [pwf] at h; exact h.2.1

theorem cd_begin (n : Nat) (ts : List Tok) (mult : Int) (loops : List (Int × Int)) (cnt : Int) :
    countDiv (tok .loopBegin 0 [.int n] :: ts) mult loops cnt = countDiv ts (mult * n) ((mult, (n : Int)) :: loops) cnt := by
  conv => lhs; rw [countDiv.eq_def]
  have hn : ¬ ((n : Int) < 0) := by omega
  simp [tok, Tok.ty, Tok.data, hn]
theorem cd_break (ts : List Tok) (mult outer n : Int) (loops : List (Int × Int)) (cnt : Int) :
    countDiv (tok .loopBreak 0 [] :: ts) mult ((outer, n) :: loops) cnt =
      countDiv ts (outer * (if n > 0 then n - 1 else 0)) ((outer, n) :: loops) cnt := by
  conv => lhs; rw [countDiv.eq_def]
  simp [tok, Tok.ty]
theorem cd_end (ts : List Tok) (mult outer n : Int) (loops : List (Int × Int)) (cnt : Int) :
    countDiv (tok .loopEnd 0 [] :: ts) mult ((outer, n) :: loops) cnt = countDiv ts outer loops cnt := by
  conv => lhs; rw [countDiv.eq_def]
  simp [tok, Tok.ty]
theorem cd_skip (ty : TT) (vi ln : Int) (vs : Option (List Nat)) (data : List SV) (ch : Option (List Tok)) (ts : List Tok) (mult : Int)
    (loops : List (Int × Int)) (cnt : Int)
    (h : ty ≠ .loopBegin ∧ ty ≠ .loopBreak ∧ ty ≠ .loopEnd ∧ ty ≠ .note ∧ ty ≠ .noteN ∧ ty ≠ .div ∧ ty ≠ .rest) :
    countDiv (Tok.mk ty vi ln vs data ch :: ts) mult loops cnt = countDiv ts mult loops cnt := by
  conv => lhs; rw [countDiv.eq_def]
  cases ty <;> simp_all [Tok.ty]
theorem cd_skip_tok (ty : TT) (vi : Int) (data : List SV) (ts : List Tok) (mult : Int) (loops : List (Int × Int)) (cnt : Int)
    (h : ty ≠ .loopBegin ∧ ty ≠ .loopBreak ∧ ty ≠ .loopEnd ∧ ty ≠ .note ∧ ty ≠ .noteN ∧ ty ≠ .div ∧ ty ≠ .rest) :
    countDiv (tok ty vi data :: ts) mult loops cnt = countDiv ts mult loops cnt := cd_skip ty vi 0 none data none ts mult loops cnt h
theorem cd_note (vi : Int) (data : List SV) (ts : List Tok) (mult : Int) (loops : List (Int × Int)) (cnt : Int) :
    countDiv (tok .note vi data :: ts) mult loops cnt = countDiv ts mult loops (cnt + mult * (1 + countChar ((data.getD 2 .none).toS) 94)) := by
  conv => lhs; rw [countDiv.eq_def]
  simp [tok, Tok.ty, Tok.data]
theorem cd_rest (vi : Int) (data : List SV) (ts : List Tok) (mult : Int) (loops : List (Int × Int)) (cnt : Int) :
    countDiv (tok .rest vi data :: ts) mult loops cnt = countDiv ts mult loops (cnt + mult * (1 + countChar ((data.getD 0 .none).toS) 94)) := by
  conv => lhs; rw [countDiv.eq_def]
  simp [tok, Tok.ty, Tok.data]
theorem cd_div (vi ln : Int) (vs : Option (List Nat)) (data : List SV) (ch : Option (List Tok)) (ts : List Tok) (mult : Int)
    (loops : List (Int × Int)) (cnt : Int) :
    countDiv (Tok.mk .div vi ln vs data ch :: ts) mult loops cnt = countDiv ts mult loops (cnt + mult * (1 + countChar ((data.getD 0 .none).toS) 94)) := by
  conv => lhs; rw [countDiv.eq_def]
  simp [Tok.ty, Tok.data]

mutual
theorem countDiv_cmd (c : Cmd) (hw : pwf2 c) : ∀ (rest : List Tok) (mult : Int) (loops : List (Int × Int)) (cnt : Int),
    countDiv (Ex2.rawL (Ex2.toTrees c) ++ rest) mult loops cnt = countDiv rest mult loops (cnt + mult * Core.countElem c) := by
  intro rest mult loops cnt
  have skip : ∀ (ty : TT) (vi : Int) (data : List SV),
      (ty ≠ .loopBegin ∧ ty ≠ .loopBreak ∧ ty ≠ .loopEnd ∧ ty ≠ .note ∧ ty ≠ .noteN ∧ ty ≠ .div ∧ ty ≠ .rest) →
      countDiv (tok ty vi data :: rest) mult loops cnt = countDiv rest mult loops cnt := fun ty vi data h => cd_skip ty vi 0 none data none rest mult loops cnt h
  cases c
  case loop n body hb k =>
    simp only [pwf2] at hw
    obtain ⟨hwb, hwk, hbk⟩ := hw
    have hraw : Ex2.rawL (Ex2.toTrees (.loop n body hb k)) =
        tok .loopBegin 0 [.int n] :: (Ex2.rawL (Ex2.toTreesL body) ++ ((if hb then [tok .loopBreak 0 []] ++ Ex2.rawL (Ex2.toTreesL k) else []) ++ [tok .loopEnd 0 []])) := by
      simp [Ex2.toTrees, Ex2.rawL, Ex2.rawT]
    rw [hraw]
    cases hb with
    | true =>
      simp only [if_true, List.cons_append, List.append_assoc, List.nil_append]
      rw [cd_begin, countDiv_cmds body hwb, cd_break, countDiv_cmds k hwk, cd_end]
      simp only [Core.countElem]
      by_cases h0 : n = 0
      · subst h0; simp
      · have hp : (n : Int) > 0 := by omega
        simp only [hp, if_true, h0, if_false]
        congr 1
        simp only [Int.mul_add, Int.mul_assoc, Int.add_assoc]
    | false =>
      have hk : k = [] := by
        rcases hbk with h | h
        · cases h
        · exact h
      subst hk
      simp only [Bool.false_eq_true, if_false, List.cons_append, List.append_assoc, List.nil_append]
      rw [cd_begin, countDiv_cmds body hwb, cd_end]
      simp only [Core.countElem, Core.countElems]
      by_cases h0 : n = 0
      · subst h0; simp
      · simp only [h0, if_false]
        congr 1
        simp [Int.mul_add, Int.mul_assoc]
  case sub body =>
    simp only [Ex2.toTrees, rawL_leaf, List.cons_append, List.nil_append]
    rw [cd_skip .sub _ _ _ _ _ _ _ _ _ (by decide)]
    simp [Core.countElem]
  case div body len =>
    simp only [pwf2] at hw
    simp only [Ex2.toTrees, rawL_leaf, List.cons_append, List.nil_append]
    rw [cd_div]
    simp [SV.toS, Core.countElem, countChar_lenText len hw.2]
  case chord body len q v =>
    simp only [pwf2] at hw
    have hraw : Ex2.rawL (Ex2.toTrees (.chord body len q v)) =
        tok .harmonyBegin 0 [] :: (Ex2.rawL (Ex2.toTreesL body) ++ [tok .harmonyEnd 0 [Ex2.lenSV len, Ex2.optInt (-1) q, Ex2.velSV v]]) := by
      simp [Ex2.toTrees, Ex2.rawL, Ex2.rawT, rawL_append]
    rw [hraw]
    simp only [List.cons_append, List.append_assoc, List.nil_append]
    rw [cd_skip_tok .harmonyBegin _ _ _ _ _ _ (by decide), countDiv_cmds body hw.1, cd_skip_tok .harmonyEnd _ _ _ _ _ _ (by decide)]
    simp [Core.countElem]
  case note semi acc nat len q v t o =>
    simp only [pwf2] at hw
    simp only [Ex2.toTrees, rawL_leaf, List.cons_append, List.nil_append]
    rw [cd_note]
    simp [SV.toS, Core.countElem, countChar_lenText len (pwf_lenOK_note hw)]
  case rest len dir =>
    simp only [pwf2] at hw
    simp only [Ex2.toTrees, rawL_leaf, List.cons_append, List.nil_append]
    rw [cd_rest]
    simp [SV.toS, Core.countElem, countChar_lenText len (pwf_lenOK_rest hw)]
  case setL len => simp only [Ex2.toTrees, rawL_leaf, List.cons_append, List.nil_append]; (first | rw [skip .length _ _ (by decide)] | rw [skip .octave _ _ (by decide)] | rw [skip .octaveRel _ _ (by decide)] | rw [skip .velocity _ _ (by decide)] | rw [skip .velocityRel _ _ (by decide)] | rw [skip .qlen _ _ (by decide)] | rw [skip .timing _ _ (by decide)]); simp [Core.countElem]
  case setO n => simp only [Ex2.toTrees, rawL_leaf, List.cons_append, List.nil_append]; (first | rw [skip .length _ _ (by decide)] | rw [skip .octave _ _ (by decide)] | rw [skip .octaveRel _ _ (by decide)] | rw [skip .velocity _ _ (by decide)] | rw [skip .velocityRel _ _ (by decide)] | rw [skip .qlen _ _ (by decide)] | rw [skip .timing _ _ (by decide)]); simp [Core.countElem]
  case octRel d => simp only [Ex2.toTrees, rawL_leaf, List.cons_append, List.nil_append]; (first | rw [skip .length _ _ (by decide)] | rw [skip .octave _ _ (by decide)] | rw [skip .octaveRel _ _ (by decide)] | rw [skip .velocity _ _ (by decide)] | rw [skip .velocityRel _ _ (by decide)] | rw [skip .qlen _ _ (by decide)] | rw [skip .timing _ _ (by decide)]); simp [Core.countElem]
  case setV n => simp only [Ex2.toTrees, rawL_leaf, List.cons_append, List.nil_append]; (first | rw [skip .length _ _ (by decide)] | rw [skip .octave _ _ (by decide)] | rw [skip .octaveRel _ _ (by decide)] | rw [skip .velocity _ _ (by decide)] | rw [skip .velocityRel _ _ (by decide)] | rw [skip .qlen _ _ (by decide)] | rw [skip .timing _ _ (by decide)]); simp [Core.countElem]
  case velRel d => simp only [Ex2.toTrees, rawL_leaf, List.cons_append, List.nil_append]; (first | rw [skip .length _ _ (by decide)] | rw [skip .octave _ _ (by decide)] | rw [skip .octaveRel _ _ (by decide)] | rw [skip .velocity _ _ (by decide)] | rw [skip .velocityRel _ _ (by decide)] | rw [skip .qlen _ _ (by decide)] | rw [skip .timing _ _ (by decide)]); simp [Core.countElem]
  case setQ n => simp only [Ex2.toTrees, rawL_leaf, List.cons_append, List.nil_append]; (first | rw [skip .length _ _ (by decide)] | rw [skip .octave _ _ (by decide)] | rw [skip .octaveRel _ _ (by decide)] | rw [skip .velocity _ _ (by decide)] | rw [skip .velocityRel _ _ (by decide)] | rw [skip .qlen _ _ (by decide)] | rw [skip .timing _ _ (by decide)]); simp [Core.countElem]
  case setT n => simp only [Ex2.toTrees, rawL_leaf, List.cons_append, List.nil_append]; (first | rw [skip .length _ _ (by decide)] | rw [skip .octave _ _ (by decide)] | rw [skip .octaveRel _ _ (by decide)] | rw [skip .velocity _ _ (by decide)] | rw [skip .velocityRel _ _ (by decide)] | rw [skip .qlen _ _ (by decide)] | rw [skip .timing _ _ (by decide)]); simp [Core.countElem]
  all_goals exact absurd hw (by simp [pwf2])
theorem countDiv_cmds (cs : List Cmd) (hw : pwfL2 cs) : ∀ (rest : List Tok) (mult : Int) (loops : List (Int × Int)) (cnt : Int),
    countDiv (Ex2.rawL (Ex2.toTreesL cs) ++ rest) mult loops cnt = countDiv rest mult loops (cnt + mult * Core.countElems cs) := by
  intro rest mult loops cnt
  cases cs with
  | nil => simp [Ex2.toTreesL, Ex2.rawL, Core.countElems]
  | cons c cs =>
    simp only [pwfL2] at hw
    simp only [Ex2.toTreesL, rawL_append, List.append_assoc, Core.countElems]
    rw [countDiv_cmd c hw.1, countDiv_cmds cs hw.2]
    congr 1
    simp [Int.mul_add, Int.add_assoc]
end

theorem countOK : CountOK := by
  intro b hw
  have := countDiv_cmds b hw [] 1 [] 0
  simp only [List.append_nil] at this
  unfold Ex2.lineTok
  rw [cd_skip .lineNo _ _ _ _ _ _ _ _ _ (by decide), this]
  simp [countDiv]

theorem chordTail_length (len : Option Core.LenExpr) (q v : Option Int) (R : List Nat) : R.length + 1 ≤ (chordTail len q v R).length := by
  rw [chordTail_eq]
  unfold argTail
  cases q <;> cases v <;> simp only [List.length_append, List.length_cons] <;> omega

mutual
theorem cost2_le (c : Cmd) (hw : pwf2 c) (R : List Nat) : cost2 c + R.length ≤ (printK2 c R).length := by
  cases c
  case loop n b hb k =>
    simp only [pwf2] at hw
    obtain ⟨hwb, hwk, _⟩ := hw
    simp only [printK2, cost2, List.length_cons, List.length_append]
    cases hb with
    | true =>
      have h1 := costL2_le k hwk (93 :: 32 :: R)
      have h2 := costL2_le b hwb (58 :: 32 :: printKL2 k (93 :: 32 :: R))
      simp only [List.length_cons, if_true] at h1 h2 ⊢
      omega
    | false =>
      have h2 := costL2_le b hwb (93 :: 32 :: R)
      simp only [List.length_cons, Bool.false_eq_true, if_false] at h2 ⊢
      omega
  case sub b =>
    simp only [pwf2] at hw
    have h := costL2_le b hw (125 :: 32 :: R)
    simp only [printK2, cost2, List.length_cons] at h ⊢
    omega
  case div b len =>
    simp only [pwf2] at hw
    have h := costL2_le b hw.1 (125 :: (Ex2.lenText len ++ 32 :: R))
    simp only [printK2, cost2, List.length_cons, List.length_append] at h ⊢
    omega
  case chord b len q v =>
    simp only [pwf2] at hw
    have h := costL2_le b hw.1 (39 :: chordTail len q v R)
    have h2 := chordTail_length len q v R
    simp only [printK2, cost2, List.length_cons] at h ⊢
    omega
  case note semi acc nat len q v t o => simp only [pwf2] at hw; simp only [printK2, cost2]; exact cost_le _ hw R
  case rest len dir => simp only [pwf2] at hw; simp only [printK2, cost2]; exact cost_le _ hw R
  case setL len => simp only [pwf2] at hw; simp only [printK2, cost2]; exact cost_le _ hw R
  case setO n => simp only [pwf2] at hw; simp only [printK2, cost2]; exact cost_le _ hw R
  case octRel d => simp only [pwf2] at hw; simp only [printK2, cost2]; exact cost_le _ hw R
  case setV n => simp only [pwf2] at hw; simp only [printK2, cost2]; exact cost_le _ hw R
  case velRel d => simp only [pwf2] at hw; simp only [printK2, cost2]; exact cost_le _ hw R
  case setQ n => simp only [pwf2] at hw; simp only [printK2, cost2]; exact cost_le _ hw R
  case setT n => simp only [pwf2] at hw; simp only [printK2, cost2]; exact cost_le _ hw R
  all_goals exact absurd hw (by simp [pwf2])
theorem costL2_le (cs : List Cmd) (hw : pwfL2 cs) (R : List Nat) : costL2 cs + R.length ≤ (printKL2 cs R).length := by
  cases cs with
  | nil => simp [costL2, printKL2]
  | cons c cs =>
    simp only [pwfL2] at hw
    have h1 := costL2_le cs hw.2 R
    have h2 := cost2_le c hw.1 (printKL2 cs R)
    simp only [costL2, printKL2]
    omega
end

/-- **print → lex, full block language**: the model lexer reads the canonical text of a program — notes, rests, setters, loops, chords,
    `Sub{…}` and tuplets nested in one another to any depth — back as exactly the compiled token list, with no error. -/
theorem lex_print2 (cs : List Cmd) (hw : pwfL2 cs) : Lx.lex 96 (printKL2 cs []) 0 = some ⟨Ex2.compileL cs, []⟩ := by
  have hlen := costL2_le cs hw []
  simp only [List.length_nil, Nat.add_zero] at hlen
  have h := stab_printKL2 96 countOK cs hw [] (some ⟨[], []⟩) 1 (Or.inl rfl) (Stab.nil 96 0 false)
  unfold Lx.lex
  rw [h _ (by omega)]
  simp [preL, Ex2.compileL, Ex2.lineTok]

end Sakura.Lp
