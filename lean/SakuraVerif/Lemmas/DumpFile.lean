import SakuraVerif.Lemmas.DumpGen
import SakuraVerif.Lemmas.Container
import SakuraVerif.Lemmas.Normalize
/-! # the whole dump of a whole file -/
namespace Sakura.Dt
open Sakura Sakura.Spec

theorem u16_be16 (pre rest : List Nat) (v : Nat) (h : v < 65536) : u16 (pre ++ (be16 v ++ rest)) pre.length = v := by
  have l1 : pre.length < (pre ++ (be16 v ++ rest)).length := by simp [be16]
  have l2 : pre.length + 1 < (pre ++ (be16 v ++ rest)).length := by simp [be16]
  have b0 : byteAt (pre ++ (be16 v ++ rest)) pre.length = v / 256 % 256 := by rw [byteAt_pre0]; simp [be16]
  have b1 : byteAt (pre ++ (be16 v ++ rest)) (pre.length + 1) = v % 256 := by rw [byteAt_pre]; simp [be16]
  unfold u16
  simp only [l1, l2, if_true, b0, b1]
  omega

theorem u32_be32 (pre rest : List Nat) (v : Nat) (h : v < 4294967296) : u32 (pre ++ (be32 v ++ rest)) pre.length = v := by
  have l1 : pre.length < (pre ++ (be32 v ++ rest)).length := by simp [be32]
  have l2 : pre.length + 1 < (pre ++ (be32 v ++ rest)).length := by simp [be32]
  have l3 : pre.length + 2 < (pre ++ (be32 v ++ rest)).length := by simp [be32]
  have l4 : pre.length + 3 < (pre ++ (be32 v ++ rest)).length := by simp [be32]
  have b0 : byteAt (pre ++ (be32 v ++ rest)) pre.length = v / 16777216 % 256 := by rw [byteAt_pre0]; simp [be32]
  have b1 : byteAt (pre ++ (be32 v ++ rest)) (pre.length + 1) = v / 65536 % 256 := by rw [byteAt_pre]; simp [be32]
  have b2 : byteAt (pre ++ (be32 v ++ rest)) (pre.length + 2) = v / 256 % 256 := by rw [byteAt_pre]; simp [be32]
  have b3 : byteAt (pre ++ (be32 v ++ rest)) (pre.length + 3) = v % 256 := by rw [byteAt_pre]; simp [be32]
  unfold u32
  simp only [l1, l2, l3, l4, if_true, b0, b1, b2, b3]
  omega

/-- four ASCII bytes at `pos` are read back as their text -/
theorem readStr_tag (pre rest : List Nat) (a b c d : Nat) (ha : a < 128) (hb : b < 128) (hc : c < 128) (hd : d < 128) :
    readStr (pre ++ (a :: b :: c :: d :: rest)) pre.length 4 = String.ofList [Char.ofNat a, Char.ofNat b, Char.ofNat c, Char.ofNat d] := by
  have e : pre ++ (a :: b :: c :: d :: rest) = pre ++ ([a, b, c, d] ++ rest) := by simp
  unfold readStr
  have hmin : min (pre.length + 4) (pre ++ (a :: b :: c :: d :: rest)).length = pre.length + 4 := by
    simp only [List.length_append, List.length_cons]; omega
  have hmin2 : min pre.length (pre.length + 4) = pre.length := by omega
  rw [hmin]
  simp only [hmin2]
  have ht : ((pre ++ (a :: b :: c :: d :: rest)).take (pre.length + 4)).drop pre.length = [a, b, c, d] := by
    rw [e, List.take_length_add_append, List.drop_left]
    simp
  rw [ht]
  simp [utf8Strict, ha, hb, hc, hd]


/-- the lines of all tracks: two header lines per track, then its events; the signature in force carries over to the next track -/
def trackLinesAll (tb : Nat) : Info → Nat → List (List (Nat × Msg)) → List String
  | _, _, [] => []
  | info, no, t :: r =>
    ["// ----- TRACK -----", s!"TRACK({no})"] ++ absLines tb info 0 t ++ trackLinesAll tb { updAll info t with eot := false } (no + 1) r

/-- a track the dump can list: well-formed messages, End-of-Track last, total time and size in range -/
def TrackOK (t : List (Nat × Msg)) : Prop :=
  (∀ e ∈ t, WF e.2) ∧ (∃ r d, t = r ++ [(d, .metaM 0x2F [])]) ∧ total t < 18446744073709551616 ∧ (encTrack t).length < 4294967296

theorem encEv_length (e : Nat × Msg) : 1 ≤ (encEv e).length := by
  unfold encEv
  have := List.length_pos_iff.mpr (encMsg_ne_nil e.2)
  simp only [List.length_append]; omega

theorem encTrack_length (t : List (Nat × Msg)) : t.length ≤ (encTrack t).length := by
  induction t with
  | nil => simp [encTrack]
  | cons e r ih => have := encEv_length e; simp only [encTrack, List.length_cons, List.length_append]; omega

theorem mtrk_text : String.ofList [Char.ofNat 77, Char.ofNat 84, Char.ofNat 114, Char.ofNat 107] = "MTrk" := by decide
theorem mthd_text : String.ofList [Char.ofNat 77, Char.ofNat 84, Char.ofNat 104, Char.ofNat 100] = "MThd" := by decide

theorem tracksGo_chunks (tb : Nat) (trks : List (List (Nat × Msg))) (hok : ∀ t ∈ trks, TrackOK t) :
    ∀ (pre post : List Nat) (info : Info) (no : Nat) (acc : List String),
      tracksGo (pre ++ (((trks.map encTrack).map chunk).flatten ++ post)) tb trks.length no pre.length info acc =
        acc ++ trackLinesAll tb info no trks := by
  induction trks with
  | nil => intro pre post info no acc; simp [tracksGo, trackLinesAll]
  | cons t r ih =>
    intro pre post info no acc
    obtain ⟨hwf, ⟨r0, d0, hlast⟩, htot, hsize⟩ := hok t List.mem_cons_self
    have hokr : ∀ x ∈ r, TrackOK x := fun x hx => hok x (List.mem_cons_of_mem _ hx)
    -- the byte vector with the first chunk taken apart
    have eb : pre ++ ((((t :: r).map encTrack).map chunk).flatten ++ post) =
        pre ++ (77 :: 84 :: 114 :: 107 :: (be32 (encTrack t).length ++ (encTrack t ++ (((r.map encTrack).map chunk).flatten ++ post)))) := by
      simp [chunk, MTrk]
    rw [eb]
    simp only [List.length_cons, tracksGo]
    rw [readStr_tag pre _ 77 84 114 107 (by decide) (by decide) (by decide) (by decide), mtrk_text]
    simp only [ne_eq, not_true_eq_false, if_false]
    -- the chunk size
    have e4 : pre ++ (77 :: 84 :: 114 :: 107 :: (be32 (encTrack t).length ++ (encTrack t ++ (((r.map encTrack).map chunk).flatten ++ post)))) =
        (pre ++ [77, 84, 114, 107]) ++ (be32 (encTrack t).length ++ (encTrack t ++ (((r.map encTrack).map chunk).flatten ++ post))) := by simp
    have hl4 : (pre ++ [77, 84, 114, 107]).length = pre.length + 4 := by simp
    have hsz : u32 (pre ++ (77 :: 84 :: 114 :: 107 :: (be32 (encTrack t).length ++ (encTrack t ++ (((r.map encTrack).map chunk).flatten ++ post))))) (pre.length + 4) =
        (encTrack t).length := by
      rw [e4, ← hl4]; exact u32_be32 _ _ _ hsize
    rw [hsz]
    -- the track loop
    have e8 : pre ++ (77 :: 84 :: 114 :: 107 :: (be32 (encTrack t).length ++ (encTrack t ++ (((r.map encTrack).map chunk).flatten ++ post)))) =
        (pre ++ [77, 84, 114, 107] ++ be32 (encTrack t).length) ++ (encTrack t ++ (((r.map encTrack).map chunk).flatten ++ post)) := by simp
    have hl8 : (pre ++ [77, 84, 114, 107] ++ be32 (encTrack t).length).length = pre.length + 8 := by simp [be32]
    have heot : (updAll info t).eot = true := by rw [hlast]; exact updAll_eot info r0 d0
    have hfuel : t.length + 1 ≤ (pre ++ (77 :: 84 :: 114 :: 107 :: (be32 (encTrack t).length ++ (encTrack t ++ (((r.map encTrack).map chunk).flatten ++ post))))).length + 2 := by
      have := encTrack_length t
      simp only [List.length_append, List.length_cons]; omega
    have hgo := trackGo_enc tb t hwf (pre ++ [77, 84, 114, 107] ++ be32 (encTrack t).length) (((r.map encTrack).map chunk).flatten ++ post) info heot htot _ hfuel
    rw [hl8, ← e8] at hgo
    rw [hgo]
    simp only []
    -- the remaining chunks
    have e9 : pre ++ (77 :: 84 :: 114 :: 107 :: (be32 (encTrack t).length ++ (encTrack t ++ (((r.map encTrack).map chunk).flatten ++ post)))) =
        (pre ++ [77, 84, 114, 107] ++ be32 (encTrack t).length ++ encTrack t) ++ (((r.map encTrack).map chunk).flatten ++ post) := by simp
    have hl9 : (pre ++ [77, 84, 114, 107] ++ be32 (encTrack t).length ++ encTrack t).length = pre.length + 8 + (encTrack t).length := by simp [be32]; omega
    rw [e9, ← hl9, ih hokr]
    simp [trackLinesAll, List.append_assoc]


/-- a format-1 file with the given tracks, as the writer frames it -/
def fileOf (tb : Nat) (trks : List (List (Nat × Msg))) : List Nat := container tb (trks.map encTrack)

/-- **the whole dump of a whole file**: the four header lines, then for every track its two header lines and one line per event -/
theorem dump_file (tb : Nat) (trks : List (List (Nat × Msg))) (htb : tb < 65536) (hn : trks.length < 65536)
    (hok : ∀ t ∈ trks, TrackOK t) :
    dump (fileOf tb trks) =
      ["// ----- MIDI DUMP DATA -----", "/// [MThd] midi format=1", s!"/// [MThd] track_count={trks.length}", s!"TIMEBASE={tb}"] ++
        trackLinesAll tb {} 0 trks := by
  have hlen : (trks.map encTrack).length = trks.length := by simp
  have eb : fileOf tb trks = [] ++ (77 :: 84 :: 104 :: 100 :: (be32 6 ++ (be16 1 ++ (be16 trks.length ++ (be16 tb ++ (((trks.map encTrack).map chunk).flatten ++ [])))))) := by
    simp [fileOf, container, MThd, hlen]
  have h0 : readStr (fileOf tb trks) 0 4 = "MThd" := by
    rw [eb]
    have := readStr_tag [] (be32 6 ++ (be16 1 ++ (be16 trks.length ++ (be16 tb ++ (((trks.map encTrack).map chunk).flatten ++ []))))) 77 84 104 100
      (by decide) (by decide) (by decide) (by decide)
    simpa [mthd_text] using this
  have e4 : fileOf tb trks = [77, 84, 104, 100] ++ (be32 6 ++ (be16 1 ++ (be16 trks.length ++ (be16 tb ++ (((trks.map encTrack).map chunk).flatten ++ []))))) := by
    rw [eb]; simp
  have h4 : u32 (fileOf tb trks) 4 = 6 := by
    rw [e4]; exact u32_be32 [77, 84, 104, 100] _ 6 (by decide)
  have e8 : fileOf tb trks = ([77, 84, 104, 100] ++ be32 6) ++ (be16 1 ++ (be16 trks.length ++ (be16 tb ++ (((trks.map encTrack).map chunk).flatten ++ [])))) := by
    rw [e4]; simp
  have h8 : u16 (fileOf tb trks) 8 = 1 := by
    rw [e8]; exact u16_be16 ([77, 84, 104, 100] ++ be32 6) _ 1 (by decide)
  have e10 : fileOf tb trks = ([77, 84, 104, 100] ++ be32 6 ++ be16 1) ++ (be16 trks.length ++ (be16 tb ++ (((trks.map encTrack).map chunk).flatten ++ []))) := by
    rw [e4]; simp
  have h10 : u16 (fileOf tb trks) 10 = trks.length := by
    rw [e10]; exact u16_be16 ([77, 84, 104, 100] ++ be32 6 ++ be16 1) _ _ hn
  have e12 : fileOf tb trks = ([77, 84, 104, 100] ++ be32 6 ++ be16 1 ++ be16 trks.length) ++ (be16 tb ++ (((trks.map encTrack).map chunk).flatten ++ [])) := by
    rw [e4]; simp
  have h12 : u16 (fileOf tb trks) 12 = tb := by
    rw [e12]; exact u16_be16 ([77, 84, 104, 100] ++ be32 6 ++ be16 1 ++ be16 trks.length) _ _ htb
  have e14 : fileOf tb trks = ([77, 84, 104, 100] ++ be32 6 ++ be16 1 ++ be16 trks.length ++ be16 tb) ++ (((trks.map encTrack).map chunk).flatten ++ []) := by
    rw [e4]; simp
  unfold dump
  rw [h0, h4, h8, h10, h12]
  simp only [ne_eq, not_true_eq_false, if_false, show ¬ (1 > 3) by decide]
  rw [e14]
  have := tracksGo_chunks tb trks hok ([77, 84, 104, 100] ++ be32 6 ++ be16 1 ++ be16 trks.length ++ be16 tb) [] {} 0
    ["// ----- MIDI DUMP DATA -----", "/// [MThd] midi format=1", s!"/// [MThd] track_count={trks.length}", s!"TIMEBASE={tb}"]
  have hl14 : ([77, 84, 104, 100] ++ be32 6 ++ be16 1 ++ be16 trks.length ++ be16 tb).length = 14 := by simp [be32, be16]
  rw [hl14] at this
  exact this


theorem dvalid_normalize (es : List Event) (hv : ∀ e ∈ es, DValid e) : ∀ e ∈ normalize es, DValid e := by
  intro x hx
  have hx' : x ∈ splitNoteOff es := (normalize_perm es).mem_iff.mp hx
  rcases mem_split es x hx' with h | ⟨e, he, _, rfl⟩
  · exact hv x h
  · exact ⟨valid_noteOffOf e (hv e he).1, by simp [noteOffOf]⟩

/-- the messages a track of the song is written as: its normalised events, then End-of-Track -/
def writtenTrack (es : List Event) : List (Nat × Msg) := expected 0 (normalize es) ++ [eotMsg]

/-- **dump ∘ generate**: for every song whose events the writer accepts (`DValid`), any number of tracks, any time base below
    65536, the literal dump of the bytes the writer model `generateSong` produces is: the four header lines, then per track its
    two header lines and exactly one line per written message — in file order, each at the running sum of the delta times under
    the time signature in force, showing kind and values as written — ending with the End-of-Track line. -/
theorem dump_generate (tb : Nat) (tracks : List (List Event)) (htb : tb < 65536) (hn : tracks.length < 65536)
    (hv : ∀ es ∈ tracks, ∀ e ∈ es, DValid e)
    (hsz : ∀ es ∈ tracks, total (writtenTrack es) < 18446744073709551616 ∧ (genTrack (normalize es)).length < 4294967296) :
    dump (generateSong (tb : Int) (-1) tracks) =
      ["// ----- MIDI DUMP DATA -----", "/// [MThd] midi format=1", s!"/// [MThd] track_count={tracks.length}", s!"TIMEBASE={tb}"] ++
        trackLinesAll tb {} 0 (tracks.map writtenTrack) := by
  have hb : songBodies (-1) tracks = (tracks.map writtenTrack).map encTrack := by
    simp only [songBodies, show ((-1 : Int) < 0) by decide, if_true, List.map_map]
    apply List.map_congr_left
    intro es hes
    exact (genTrack_enc (normalize es) (dvalid_normalize es (hv es hes)) (sortedFrom_normalize es)).1
  have hfile : generateSong (tb : Int) (-1) tracks = fileOf tb (tracks.map writtenTrack) := by
    unfold generateSong fileOf
    rw [containerI_eq_container, hb]
  rw [hfile]
  have hok : ∀ t ∈ tracks.map writtenTrack, TrackOK t := by
    intro t ht
    obtain ⟨es, hes, rfl⟩ := List.mem_map.mp ht
    obtain ⟨h1, h2⟩ := genTrack_enc (normalize es) (dvalid_normalize es (hv es hes)) (sortedFrom_normalize es)
    refine ⟨h2, ⟨expected 0 (normalize es), 0, rfl⟩, (hsz es hes).1, ?_⟩
    have := (hsz es hes).2
    rw [h1] at this
    exact this
  have := dump_file tb (tracks.map writtenTrack) htb (by simpa using hn) hok
  simpa using this

end Sakura.Dt
