import SakuraVerif.Lemmas.ExecInv
/-! # The run of a block reads only its own track and the song-level settings (C12, frame property of `Model.Exec`)

`withOthers s o` is the state `s` with every track other than the selected one replaced by the corresponding entry of `o`.
For every token that is neither `TR` nor `TrackSync` (nor contains one) the action of `runner::exec` commutes with that
replacement: what the token does to the selected track and to the song-level settings is the same whatever the other tracks
hold, and it carries the other tracks through unchanged.  With `exec_indep` (nothing outside the selected track is written)
this is the whole of "what is written to a track depends only on the commands addressed to it and on song-global settings";
the commutation of blocks addressed to different tracks follows. -/
namespace Sakura.Ex2
open Sakura Sakura.Lx

/-- `s` with the tracks other than the selected one taken from `o` (when `o` has as many tracks as `s`; otherwise `s` itself) -/
def withOthers (s : Song) (o : List Trk) : Song :=
  { s with tracks := if o.length = s.tracks.length then o.set s.cur s.t else s.tracks }

theorem wo_t (s : Song) (o : List Trk) : (withOthers s o).t = s.t := by
  unfold withOthers Song.t
  by_cases h : o.length = s.tracks.length
  · simp only [h, if_true]
    by_cases hc : s.cur < s.tracks.length
    · simp [List.getD_eq_getElem?_getD, h, hc]
    · have h1 : s.tracks.length ≤ s.cur := by omega
      have h2 : o.length ≤ s.cur := by omega
      simp [List.getD_eq_getElem?_getD, h1, h2]
  · simp only [h, if_false]

theorem wo_setT (s : Song) (o : List Trk) (t' : Trk) : (withOthers s o).setT t' = withOthers (s.setT t') o := by
  unfold withOthers Song.setT Song.t
  by_cases h : o.length = s.tracks.length
  · by_cases hc : s.cur < s.tracks.length
    · simp [h, List.getD_eq_getElem?_getD, hc, List.set_set]
    · have h1 : s.tracks.length ≤ s.cur := by omega
      have h2 : o.length ≤ s.cur := by omega
      simp [h, List.set_eq_of_length_le, h1]
  · simp [h]

@[simp] theorem wo_bad (s : Song) (o : List Trk) : (withOthers s o).bad = s.bad := rfl
@[simp] theorem wo_tb (s : Song) (o : List Trk) : (withOthers s o).tb = s.tb := rfl
@[simp] theorem wo_cur (s : Song) (o : List Trk) : (withOthers s o).cur = s.cur := rfl
@[simp] theorem wo_keyFlag (s : Song) (o : List Trk) : (withOthers s o).keyFlag = s.keyFlag := rfl
@[simp] theorem wo_keyShift (s : Song) (o : List Trk) : (withOthers s o).keyShift = s.keyShift := rfl
@[simp] theorem wo_useKeyShift (s : Song) (o : List Trk) : (withOthers s o).useKeyShift = s.useKeyShift := rfl
@[simp] theorem wo_vAdd (s : Song) (o : List Trk) : (withOthers s o).vAdd = s.vAdd := rfl
@[simp] theorem wo_qAdd (s : Song) (o : List Trk) : (withOthers s o).qAdd = s.qAdd := rfl
@[simp] theorem wo_harmonyFlag (s : Song) (o : List Trk) : (withOthers s o).harmonyFlag = s.harmonyFlag := rfl
@[simp] theorem wo_harmonyTime (s : Song) (o : List Trk) : (withOthers s o).harmonyTime = s.harmonyTime := rfl
@[simp] theorem wo_harmonyEvents (s : Song) (o : List Trk) : (withOthers s o).harmonyEvents = s.harmonyEvents := rfl
@[simp] theorem wo_octaveOnce (s : Song) (o : List Trk) : (withOthers s o).octaveOnce = s.octaveOnce := rfl
@[simp] theorem wo_seed (s : Song) (o : List Trk) : (withOthers s o).seed = s.seed := rfl
@[simp] theorem wo_playFrom (s : Song) (o : List Trk) : (withOthers s o).playFrom = s.playFrom := rfl
@[simp] theorem wo_lineno (s : Song) (o : List Trk) : (withOthers s o).lineno = s.lineno := rfl
@[simp] theorem wo_measureShift (s : Song) (o : List Trk) : (withOthers s o).measureShift = s.measureShift := rfl
@[simp] theorem wo_timesigFrac (s : Song) (o : List Trk) : (withOthers s o).timesigFrac = s.timesigFrac := rfl
@[simp] theorem wo_timesigDeno (s : Song) (o : List Trk) : (withOthers s o).timesigDeno = s.timesigDeno := rfl
@[simp] theorem wo_tempo (s : Song) (o : List Trk) : (withOthers s o).tempo = s.tempo := rfl

/-- a leaf action that commutes with a state map commutes with it along every run of the loop machine -/
theorem runFuel_sim {α σ} (act : α → σ → σ) (f : σ → σ) (toks : List (Loop.Tok α))
    (ha : ∀ a, Loop.Tok.other a ∈ toks → ∀ s, act a (f s) = f (act a s)) :
    ∀ (F : Nat) (pos : Nat) (st : List Loop.Item) (s : σ),
      Loop.runFuel act toks F (pos, st, f s) = (Loop.runFuel act toks F (pos, st, s)).map f := by
  intro F
  induction F with
  | zero => intro pos st s; rfl
  | succ F ih =>
    intro pos st s
    have hstep : Loop.step act toks (pos, st, f s) = (Loop.step act toks (pos, st, s)).map (fun c => (c.1, c.2.1, f c.2.2)) := by
      simp only [Loop.step]
      cases ht : toks[pos]? with
      | none => rfl
      | some t =>
        cases t with
        | other a => simp only [Option.map]; rw [ha a (List.mem_of_getElem? ht)]
        | lbegin n => rfl
        | lbreak =>
          cases st with
          | nil => rfl
          | cons it st' =>
            simp only []
            split
            · split <;> (split <;> rfl)
            · rfl
        | lend =>
          cases st with
          | nil => rfl
          | cons it st' =>
            simp only []
            split <;> rfl
    simp only [Loop.runFuel, hstep]
    cases hs : Loop.step act toks (pos, st, s) with
    | none => rfl
    | some c1 =>
      obtain ⟨p1, st1, s1⟩ := c1
      simp only [Option.map]
      exact ih p1 st1 s1

/-! ## the helpers of the note arms -/

theorem drawIf_wo (w v : Int) (s : Song) (o : List Trk) :
    drawIf w v (withOthers s o) = ((drawIf w v s).1, withOthers (drawIf w v s).2 o) := by
  unfold drawIf
  split <;> rfl

theorem noteDraws_wo (s : Song) (o : List Trk) (k v t q : Int) :
    noteDraws (withOthers s o) k v t q = ((noteDraws s k v t q).1, withOthers (noteDraws s k v t q).2 o) := by
  have hu : ∀ x : Nat, ({ withOthers s o with seed := x } : Song) = withOthers { s with seed := x } o := fun _ => rfl
  unfold noteDraws
  simp only [wo_t, hu, drawIf_wo]
  split
  · simp only [hu, drawIf_wo]
    rfl
  · simp only [drawIf_wo]

theorem advance_wo (s : Song) (o : List Trk) (tp : Int) : advance (withOthers s o) tp = withOthers (advance s tp) o := by
  unfold advance
  simp only [wo_t, wo_setT, wo_octaveOnce]
  split
  · rfl
  · rfl

theorem emitNote_wo (s : Song) (o : List Trk) (ev : Event) (sl : Int) :
    emitNote (withOthers s o) ev sl = withOthers (emitNote s ev sl) o := by
  unfold emitNote
  simp only [wo_t, wo_setT, wo_harmonyFlag, wo_harmonyTime, wo_harmonyEvents, wo_tb]
  split
  · rfl
  · split
    · rfl
    · split <;> rfl

theorem execNote_wo (s : Song) (o : List Trk) (tk : Tok) : execNote (withOthers s o) tk = withOthers (execNote s tk) o := by
  unfold execNote
  simp only [wo_t, wo_tb, wo_useKeyShift, wo_keyFlag, wo_keyShift, noteDraws_wo, advance_wo, emitNote_wo]
  split
  · rfl
  · rfl

theorem execNoteN_wo (s : Song) (o : List Trk) (tk : Tok) : execNoteN (withOthers s o) tk = withOthers (execNoteN s tk) o := by
  unfold execNoteN
  simp only [wo_t, wo_tb, wo_keyShift, drawIf_wo, wo_setT]
  split
  · rfl
  · rfl

theorem execHarmonyEnd_wo (s : Song) (o : List Trk) (tk : Tok) :
    execHarmonyEnd (withOthers s o) tk = withOthers (execHarmonyEnd s tk) o := by
  unfold execHarmonyEnd
  simp only [wo_t, wo_tb, wo_harmonyFlag, wo_harmonyTime, wo_harmonyEvents, wo_setT]
  split
  · rfl
  · rfl

theorem tempoChange_wo (s : Song) (o : List Trk) (x : Int) : tempoChange (withOthers s o) x = withOthers (tempoChange s x) o := by
  unfold tempoChange
  simp only [wo_t, wo_setT]
  rfl

/-! ## the frame property of `leaf` and `exec` -/

theorem block_wo (F d : Nat) (o : List Trk)
    (ih : ∀ (tk : Tok) (s : Song), NoTrack tk → leaf F d tk (withOthers s o) = withOthers (leaf F d tk s) o)
    (ch : List Tok) (hch : ∀ a ∈ ch, NoTrack a) (s0 : Song) :
    Loop.runFuel (leaf F d) (ch.map toLoopTok) F (0, [], withOthers s0 o)
      = (Loop.runFuel (leaf F d) (ch.map toLoopTok) F (0, [], s0)).map (fun x => withOthers x o) := by
  refine runFuel_sim (leaf F d) (fun x => withOthers x o) _ ?_ F 0 [] s0
  intro a ha st
  obtain ⟨t, ht, he⟩ := List.mem_map.mp ha
  have := toLoopTok_other t a he
  subst this
  exact ih _ st (hch _ ht)

macro "wo_arm" : tactic => `(tactic| first
  | rfl
  | (simp only [wo_t, wo_setT, wo_tb, wo_vAdd, wo_qAdd, wo_octaveOnce, wo_timesigFrac, wo_timesigDeno, wo_measureShift,
       execNote_wo, execNoteN_wo, execHarmonyEnd_wo, tempoChange_wo]
     repeat' split
     all_goals rfl))

theorem leaf_wo (F : Nat) (o : List Trk) :
    ∀ (d : Nat) (tk : Tok) (s : Song), NoTrack tk → leaf F d tk (withOthers s o) = withOthers (leaf F d tk s) o := by
  intro d
  induction d with
  | zero =>
    intro tk s hn
    have hty := noTrack_ty tk hn
    by_cases hb : s.bad = true
    · unfold leaf; simp only [wo_bad, hb, if_true]
    unfold leaf
    simp only [wo_bad, hb, Bool.false_eq_true, if_false]
    cases h : tk.ty
    all_goals simp only []
    case track => exact absurd h hty.1
    case trackSync => exact absurd h hty.2
    all_goals wo_arm
  | succ d ih =>
    intro tk s hn
    have hty := noTrack_ty tk hn
    by_cases hb : s.bad = true
    · unfold leaf; simp only [wo_bad, hb, if_true]
    by_cases hsub : tk.ty = .sub
    · unfold leaf
      simp only [wo_bad, hb, Bool.false_eq_true, if_false, hsub]
      cases hc : tk.children with
      | none => rfl
      | some ch =>
        simp only [block_wo F d o ih ch (noTrack_children tk hn ch hc) s]
        cases hr : Loop.runFuel (leaf F d) (ch.map toLoopTok) F (0, [], s) with
        | none => rfl
        | some s' =>
          simp only [Option.map, wo_bad, wo_t, wo_setT]
          split <;> rfl
    by_cases hdiv : tk.ty = .div
    · unfold leaf
      simp only [wo_bad, hb, Bool.false_eq_true, if_false, hdiv]
      cases hc : tk.children with
      | none => rfl
      | some ch =>
        simp only [wo_t, wo_tb, wo_setT, block_wo F d o ih ch (noTrack_children tk hn ch hc)]
        generalize hs0 : s.setT _ = s0
        cases hr : Loop.runFuel (leaf F d) (ch.map toLoopTok) F (0, [], s0) with
        | none => rfl
        | some s' =>
          simp only [Option.map, wo_bad, wo_t, wo_setT]
          split <;> rfl
    unfold leaf
    simp only [wo_bad, hb, Bool.false_eq_true, if_false]
    cases h : tk.ty
    all_goals simp only []
    case track => exact absurd h hty.1
    case trackSync => exact absurd h hty.2
    case sub => exact absurd h hsub
    case div => exact absurd h hdiv
    all_goals wo_arm

/-- **frame property of `exec`**: the run of a token list without `TR`/`TrackSync` commutes with replacing the other tracks -/
theorem exec_wo (F D : Nat) (toks : List Tok) (h : ∀ a ∈ toks, NoTrack a) (s : Song) (o : List Trk) :
    exec F D toks (withOthers s o) = (exec F D toks s).map (fun x => withOthers x o) :=
  block_wo F D o (leaf_wo F o D) toks h s

theorem withOthers_tracks (s : Song) (o : List Trk) (h : o.length = s.tracks.length) :
    (withOthers s o).tracks = o.set s.cur s.t := by
  simp [withOthers, h]

/-- a state is its own view with the other tracks put back -/
theorem eq_withOthers (s2 : Song) (T : List Trk) (hl : s2.tracks.length = T.length) (hc : s2.tracks[s2.cur]? = T[s2.cur]?) :
    s2 = withOthers { s2 with tracks := T } s2.tracks := by
  have hset : s2.tracks.set s2.cur (T.getD s2.cur (Trk.new s2.tb ((s2.cur : Int) - 1))) = s2.tracks := by
    by_cases hlt : s2.cur < s2.tracks.length
    · apply List.ext_getElem?
      intro i
      rw [List.getElem?_set]
      split
      · rename_i hi
        subst hi
        have hT : s2.cur < T.length := by omega
        rw [List.getElem?_eq_getElem hlt, List.getElem?_eq_getElem hT] at hc
        simp [hlt, hT, List.getD_eq_getElem?_getD]
        exact (Option.some.inj hc).symm
      · rfl
    · exact List.set_eq_of_length_le (by omega)
  unfold withOthers Song.t
  simp only [hl, if_true]
  rw [hset]

/-- **the run reads only the selected track and the song-level settings**: two states that agree on everything except the
    tracks other than the selected one give runs that agree on everything except those tracks, which each run carries through -/
theorem exec_reads_own (F D : Nat) (toks : List Tok) (h : ∀ a ∈ toks, NoTrack a) (s1 s2 : Song)
    (hg : { s2 with tracks := s1.tracks } = s1) (hl : s2.tracks.length = s1.tracks.length)
    (hc : s2.tracks[s2.cur]? = s1.tracks[s2.cur]?) :
    exec F D toks s2 = (exec F D toks s1).map (fun x => withOthers x s2.tracks) := by
  have e := eq_withOthers s2 s1.tracks hl hc
  rw [hg] at e
  rw [← exec_wo F D toks h s1 s2.tracks, ← e]

theorem some_t (s : Song) (h : s.cur < s.tracks.length) : s.tracks[s.cur]? = some s.t := by
  simp [Song.t, List.getD_eq_getElem?_getD, h]

/-- the same song with another track selected -/
def onTrack (s : Song) (a : Nat) : Song := { s with cur := a }

/-- the song-level settings of `s'` are those of `s` (only the tracks may differ; the selection is not compared) -/
def SameGlobals (s s' : Song) : Prop := { s' with tracks := s.tracks, cur := s.cur } = s

/-- **blocks addressed to different tracks commute**: if the block `A` run on track `a` and the block `B` run on track `b ≠ a`
    (neither containing `TR`/`TrackSync`) leave the song-level settings as they were, then running them in either order
    gives the same tracks: track `a` as `A` alone leaves it, track `b` as `B` alone leaves it, every other track untouched -/
theorem blocks_commute (F D : Nat) (A B : List Tok) (hA : ∀ x ∈ A, NoTrack x) (hB : ∀ x ∈ B, NoTrack x)
    (s : Song) (a b : Nat) (hab : a ≠ b) (ha : a < s.tracks.length) (hb : b < s.tracks.length)
    (sA sB : Song) (eA : exec F D A (onTrack s a) = some sA) (eB : exec F D B (onTrack s b) = some sB)
    (gA : SameGlobals s sA) (gB : SameGlobals s sB) :
    ∃ r1 r2, exec F D B (onTrack sA b) = some r1 ∧ exec F D A (onTrack sB a) = some r2 ∧ r1.tracks = r2.tracks ∧
      SameGlobals s r1 ∧ SameGlobals s r2 ∧
      ∀ i, r1.tracks[i]? = if i = a then sA.tracks[a]? else if i = b then sB.tracks[b]? else s.tracks[i]? := by
  obtain ⟨cA, lA, tA⟩ := exec_indep F D A hA _ _ eA
  obtain ⟨cB, lB, tB⟩ := exec_indep F D B hB _ _ eB
  simp only [onTrack] at cA lA tA cB lB tB
  -- the second run of each order, through the frame property
  have g1 : ({ onTrack sA b with tracks := (onTrack s b).tracks } : Song) = onTrack s b := by
    have := congrArg (fun x : Song => ({ x with cur := b } : Song)) gA
    exact this
  have g2 : ({ onTrack sB a with tracks := (onTrack s a).tracks } : Song) = onTrack s a := by
    have := congrArg (fun x : Song => ({ x with cur := a } : Song)) gB
    exact this
  have r1e := exec_reads_own F D B hB (onTrack s b) (onTrack sA b) g1 lA (tA b (Ne.symm hab))
  have r2e := exec_reads_own F D A hA (onTrack s a) (onTrack sB a) g2 lB (tB a hab)
  rw [eB] at r1e
  rw [eA] at r2e
  simp only [Option.map, onTrack] at r1e r2e
  refine ⟨_, _, r1e, r2e, ?_⟩
  have t1 : (withOthers sB sA.tracks).tracks = sA.tracks.set b sB.t := by
    rw [withOthers_tracks _ _ (by omega), cB]
  have t2 : (withOthers sA sB.tracks).tracks = sB.tracks.set a sA.t := by
    rw [withOthers_tracks _ _ (by omega), cA]
  have hsA : sA.tracks[a]? = some sA.t := by rw [← cA]; exact some_t sA (by omega)
  have hsB : sB.tracks[b]? = some sB.t := by rw [← cB]; exact some_t sB (by omega)
  have key : ∀ i, (sA.tracks.set b sB.t)[i]? = if i = a then sA.tracks[a]? else if i = b then sB.tracks[b]? else s.tracks[i]? := by
    intro i
    rw [List.getElem?_set]
    by_cases h1 : i = a
    · subst h1; simp [Ne.symm hab]
    · by_cases h2 : i = b
      · subst h2; simp [h1, hsB]; omega
      · simp [h1, h2, Ne.symm h2, tA i h1]
  refine ⟨?_, ?_, ?_, ?_⟩
  · rw [t1, t2]
    apply List.ext_getElem?
    intro i
    rw [key i, List.getElem?_set]
    by_cases h1 : i = a
    · subst h1; simp [hsA]; omega
    · by_cases h2 : i = b
      · subst h2; simp [h1, Ne.symm h1]
      · simp [h1, h2, Ne.symm h1, tB i h2]
  · unfold SameGlobals at gB ⊢
    exact gB
  · unfold SameGlobals at gA ⊢
    exact gA
  · intro i; rw [t1]; exact key i

end Sakura.Ex2
