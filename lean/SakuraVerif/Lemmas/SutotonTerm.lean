import SakuraVerif.Model.Sutoton
/-! Termination of `sutoton::convert`: every step of the main loop consumes at least one character
    (once empty words are rejected), so the result does not depend on the fuel beyond `length + 1`. -/
namespace Sakura.Sut

def NonEmptyNames (items : List Item) : Prop := ∀ it ∈ items, it.name ≠ []

theorem getTokenS_len (sp : List Nat) : ∀ cs : List Nat, (getTokenS sp cs).2.length ≤ cs.length := by
  intro cs
  induction cs with
  | nil => simp [getTokenS]
  | cons c cs ih =>
    simp only [getTokenS]
    split
    · simp
    · simp only [List.length_cons]; omega

/-- at a position where the separator does not start, or on non-empty input, at least one character goes -/
theorem getTokenS_len_lt (sp : List Nat) (c : Nat) (cs : List Nat) (hsp : sp ≠ []) :
    (getTokenS sp (c :: cs)).2.length < (c :: cs).length := by
  simp only [getTokenS]
  split
  · have : 1 ≤ sp.length := by cases sp <;> simp_all
    simp only [List.length_drop, List.length_cons]; omega
  · have := getTokenS_len sp cs
    simp only [List.length_cons]; omega

theorem nestGo_len : ∀ (cs : List Nat) (level : Nat), (nestGo level cs).2.length ≤ cs.length := by
  intro cs
  induction cs with
  | nil => intro level; simp [nestGo]
  | cons c cs ih =>
    intro level
    simp only [nestGo]
    split
    · have := ih (level + 1); simp only [List.length_cons]; omega
    · split
      · split
        · simp
        · have := ih (level - 1); simp only [List.length_cons]; omega
      · have := ih level; simp only [List.length_cons]; omega

theorem getTokenNest_len (cs : List Nat) : (getTokenNest cs).2.length ≤ cs.length := by
  unfold getTokenNest
  split
  · rename_i r
    have := nestGo_len r 1
    simp only [List.length_cons]; omega
  · exact nestGo_len cs 0

theorem skipSpace_len : ∀ (f : Nat) (cs : List Nat), (skipSpace f cs).length ≤ cs.length := by
  intro f
  induction f with
  | zero => intro cs; simp [skipSpace]
  | succ f ih =>
    intro cs
    cases cs with
    | nil => simp [skipSpace]
    | cons c cs =>
      simp only [skipSpace]
      split
      · have := ih cs; simp only [List.length_cons]; omega
      · split
        · split
          · rename_i r
            have h1 := getTokenS_len [42, 47] (c :: 42 :: r)
            have h2 := ih (getTokenS [42, 47] (c :: 42 :: r)).2
            exact Nat.le_trans h2 h1
          · exact Nat.le_refl _
        · exact Nat.le_refl _

theorem dwAfterTilde_len (cs : List Nat) : (dwAfterTilde cs).length ≤ cs.length := skipSpace_len _ _
theorem dwAfterName_len (cs : List Nat) : (dwAfterName cs).length ≤ cs.length := by
  unfold dwAfterName
  exact Nat.le_trans (skipSpace_len _ _) (Nat.le_trans (getTokenNest_len _) (dwAfterTilde_len cs))
theorem dwAfterEq_len (cs : List Nat) : (dwAfterEq cs).length ≤ cs.length := by
  unfold dwAfterEq
  split
  · have := dwAfterName_len cs; simp only [List.length_drop]; omega
  · exact dwAfterName_len cs
theorem dwBeforeValue_len (cs : List Nat) : (dwBeforeValue cs).length ≤ cs.length :=
  Nat.le_trans (skipSpace_len _ _) (dwAfterEq_len cs)
theorem dwRest_len (cs : List Nat) : (dwRest cs).length ≤ cs.length :=
  Nat.le_trans (getTokenNest_len _) (dwBeforeValue_len cs)

theorem defineWord_len (items : List Item) (cs : List Nat) : (defineWord items cs).2.length ≤ cs.length := by
  unfold defineWord
  split
  · exact dwAfterTilde_len cs
  · split
    · exact dwBeforeValue_len cs
    · exact dwRest_len cs

theorem setItem_nonempty (items : List Item) (name value : List Nat) (h : NonEmptyNames items) :
    NonEmptyNames (setItem items name value) := by
  unfold setItem
  split
  · exact h
  · rename_i hne
    have hn : name ≠ [] := by intro h0; simp [h0] at hne
    split
    · intro it hit
      obtain ⟨x, hx, rfl⟩ := List.mem_map.mp hit
      split
      · simpa using h x hx
      · exact h x hx
    · intro it hit
      rcases List.mem_append.mp hit with h1 | h1
      · exact h it h1
      · simp at h1; subst h1; exact hn

theorem sortItems_nonempty (items : List Item) (h : NonEmptyNames items) : NonEmptyNames (sortItems items) := by
  intro it hit
  exact h it ((List.mergeSort_perm _ _).mem_iff.mp hit)

theorem defineWord_nonempty (items : List Item) (cs : List Nat) (h : NonEmptyNames items) :
    NonEmptyNames (defineWord items cs).1 := by
  unfold defineWord
  split
  · exact h
  · split
    · exact h
    · exact sortItems_nonempty _ (setItem_nonempty _ _ _ h)

theorem firstMatch_pos (items : List Item) (h : NonEmptyNames items) (rest : List Nat) (it : Item)
    (hf : firstMatch items rest = some it) : 1 ≤ it.name.length := by
  unfold firstMatch at hf
  have hne := h it (List.mem_of_find?_eq_some hf)
  cases hn : it.name with
  | nil => exact absurd hn hne
  | cons _ _ => simp

/-- fuel independence: any two fuels above the length of the remaining text give the same output -/
theorem convertLoop_fuel : ∀ (n : Nat) (cs : List Nat) (items : List Item) (f f' : Nat),
    cs.length ≤ n → n < f → n < f' → NonEmptyNames items → convertLoop f items cs = convertLoop f' items cs := by
  intro n
  induction n using Nat.strongRecOn with
  | _ n ih =>
    intro cs items f f' hlen hf hf' hne
    cases cs with
    | nil => cases f <;> cases f' <;> simp [convertLoop]
    | cons c cs =>
      obtain ⟨g, rfl⟩ : ∃ g, f = g + 1 := ⟨f - 1, by omega⟩
      obtain ⟨g', rfl⟩ : ∃ g', f' = g' + 1 := ⟨f' - 1, by omega⟩
      simp only [List.length_cons] at hlen
      -- recursive calls are on strictly shorter texts: use the induction hypothesis at n - 1
      have recur : ∀ (cs' : List Nat) (items' : List Item), cs'.length ≤ n - 1 → NonEmptyNames items' →
          convertLoop g items' cs' = convertLoop g' items' cs' :=
        fun cs' items' h1 h2 => ih (n - 1) (by omega) cs' items' g g' h1 (by omega) (by omega) h2
      have hcs : cs.length ≤ n - 1 := by omega
      simp only [convertLoop]
      split
      · -- '{'
        split
        · rename_i r _
          have h1 := getTokenS_len_lt [34, 125] 123 (34 :: r) (by simp)
          rw [recur _ items (by simp only [List.length_cons] at h1 hlen ⊢; omega) hne]
        · rw [recur cs items hcs hne]
      · split
        · -- '/'
          split
          · rename_i r _ _
            have h1 := getTokenS_len_lt [10] 47 (47 :: r) (by simp)
            rw [recur _ items (by simp only [List.length_cons] at h1 hlen ⊢; omega) hne]
          · rename_i r _ _
            have h1 := getTokenS_len_lt [42, 47] 47 (42 :: r) (by simp)
            rw [recur _ items (by simp only [List.length_cons] at h1 hlen ⊢; omega) hne]
          · rw [recur cs items hcs hne]
        · split
          · -- '~'
            have h1 := defineWord_len items cs
            rw [recur _ _ (by omega) (defineWord_nonempty items cs hne)]
          · split
            · rename_i it hm
              have hp := firstMatch_pos items hne _ it hm
              rw [recur _ items (by simp only [List.length_drop, List.length_cons]; omega) hne]
            · rw [recur cs items hcs hne]

/-- `convert` terminates: `length + 1` steps always suffice (any larger fuel gives the same text) -/
theorem convert_fuel_sufficient (items : List Item) (h : NonEmptyNames items) (src : List Nat) (extra : Nat) :
    convertLoop (src.length + 1 + extra) items src = convertLoop (src.length + 1) items src :=
  convertLoop_fuel src.length src items _ _ (Nat.le_refl _) (by omega) (by omega) h

theorem initItems_nonempty (rows : List (List Nat × List Nat)) : NonEmptyNames (initItems rows) := by
  unfold initItems
  apply sortItems_nonempty
  suffices h : ∀ (its : List Item), NonEmptyNames its → NonEmptyNames (rows.foldl (fun its r => setItem its r.1 r.2) its) from
    h [] (fun _ h => by simp at h)
  induction rows with
  | nil => intro its h; exact h
  | cons r rs ih => intro its h; exact ih _ (setItem_nonempty its r.1 r.2 h)

end Sakura.Sut
