import SakuraVerif.Lemmas.Vlq
import SakuraVerif.Model.Dump
namespace Sakura

theorem readDelta_hi (a : List Nat) (v : Nat) : ∀ (pre : List Nat) (rest : List Nat) (acc f : Nat),
    a = pre ++ hi v ++ rest → (hi v).length ≤ f →
    ∃ k, readDelta a (f + 1) pre.length acc =
      readDelta a (f + 1 - (hi v).length) (pre.length + (hi v).length) (acc * 128 ^ k + v) := by
  induction v using Nat.strongRecOn with
  | _ v ih =>
    intro pre rest acc f ha hf
    cases v with
    | zero => exact ⟨0, by simp [hi]⟩
    | succ w =>
      obtain ⟨q, r, hq, hr, hqr, hhi⟩ := hi_succ w
      rw [hhi] at ha hf ⊢
      simp only [List.length_append, List.length_cons, List.length_nil] at hf ⊢
      obtain ⟨k, hk⟩ := ih q hq pre ([128 + r] ++ rest) acc f (by rw [ha]; simp) (by omega)
      refine ⟨k + 1, ?_⟩
      rw [hk]
      have hget : a[pre.length + (hi q).length]? = some (128 + r) := by
        rw [ha]; simp
      obtain ⟨g, hg⟩ : ∃ g, f + 1 - (hi q).length = g + 1 := ⟨f - (hi q).length, by omega⟩
      rw [hg, readDelta, hget]
      have h1 : ¬ (128 + r < 0x80) := by omega
      have h2 : (128 + r) % 128 = r := by omega
      simp only [h1, if_false, h2]
      have hacc : (acc * 128 ^ k + q) * 128 + r = acc * 128 ^ (k + 1) + (w + 1) := by
        rw [Nat.pow_succ, Nat.add_mul, ← hqr]
        generalize 128 ^ k = p
        rw [Nat.mul_assoc]; omega
      rw [hacc]
      congr 1 <;> omega

theorem readDelta_inverts (n : Nat) (pre rest : List Nat) (f : Nat) (hf : (encodeDelta n).length ≤ f) :
    readDelta (pre ++ encodeDelta n ++ rest) (f + 1) pre.length 0 = (n, pre.length + (encodeDelta n).length) := by
  rw [encodeDelta_eq] at hf ⊢
  simp only [List.length_append, List.length_cons, List.length_nil] at hf ⊢
  obtain ⟨k, hk⟩ := readDelta_hi (pre ++ (hi (n / 128) ++ [n % 128]) ++ rest) (n / 128) pre ([n % 128] ++ rest) 0 f
    (by simp) (by omega)
  rw [hk]
  have hget : (pre ++ (hi (n / 128) ++ [n % 128]) ++ rest)[pre.length + (hi (n / 128)).length]? = some (n % 128) := by
    simp
  obtain ⟨g, hg⟩ : ∃ g, f + 1 - (hi (n / 128)).length = g + 1 := ⟨f - (hi (n / 128)).length, by omega⟩
  rw [hg, readDelta, hget]
  have h1 : n % 128 < 0x80 := Nat.mod_lt _ (by decide)
  simp only [h1, if_true, Nat.zero_mul, Nat.zero_add]
  have := Nat.div_add_mod n 128
  congr 1 <;> omega

end Sakura
