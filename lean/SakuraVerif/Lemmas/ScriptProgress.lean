import SakuraVerif.Lemmas.ScriptTerm
import SakuraVerif.Lemmas.ScriptStack
import SakuraVerif.Lemmas.ScriptScope
/-! # The script runner never gets stuck on lexer-shaped programs

The literal model has one failure state (`bad`): fuel exhausted, a token of a shape the lexer does not produce, an operator it
does not know, a call to a function that does not exist, or a missing scope.  For programs of the shapes the lexer produces
(`Stm`/`Ex`/`Arg`, function table `FnsOK`) run with the fuel `needList` computes and at least one scope, none of these happens:
`bad` stays `false` through every statement, loop pass and call.  Together with fuel independence this makes the model total on
such programs — its answer is a real final state, never "unsupported". -/
namespace Sakura.Sx

def Good (s : St) : Prop := s.bad = false ∧ s.scopes ≠ []

theorem pop_bad (s : St) : (pop s).2.bad = s.bad := by
  unfold pop; cases s.stack <;> rfl

theorem good_pop {s : St} (h : Good s) : Good (pop s).2 := ⟨(pop_bad s).trans h.1, by rw [pop_scopes]; exact h.2⟩

theorem good_setVar {s : St} (h : Good s) (k : List Nat) (v : V) : Good (setVar s k v) := by
  obtain ⟨h1, h2⟩ := h
  unfold setVar
  cases hs : s.scopes with
  | nil => exact absurd hs h2
  | cons sc r => exact ⟨h1, by simp⟩

theorem good_bindParams (fn : Fn) (argv : List V) {s : St} (h : Good s) : Good (bindParams fn argv s) := by
  unfold bindParams
  generalize fn.args.zipIdx = l
  induction l generalizing s with
  | nil => exact h
  | cons p r ih => simp only [List.foldl_cons]; exact ih (good_setVar h _ _)

theorem frame_ne {s s' : St} (h : Frame s s') (hs : s.scopes ≠ []) : s'.scopes ≠ [] := by
  intro h'
  have := h.1
  rw [h'] at this
  cases hsc : s.scopes with
  | nil => exact hs hsc
  | cons a r => rw [hsc] at this; simp at this

theorem whileNext_shape (line : Int) (k : Nat) (s3 s' : St) (h : whileNext line k s3 = .stop s' ∨ whileNext line k s3 = .again s') :
    s'.bad = s3.bad ∧ s'.scopes = s3.scopes := by
  unfold whileNext at h
  by_cases h1 : k + 1 > maxLoop
  · simp only [h1, if_true] at h
    rcases h with h | h
    · injection h with h; subst h; split <;> exact ⟨rfl, rfl⟩
    · cases h
  · simp only [h1, if_false] at h
    by_cases h2 : s3.brk = 1
    · simp only [h2, if_true] at h
      rcases h with h | h
      · injection h with h; subst h; exact ⟨rfl, rfl⟩
      · cases h
    · simp only [h2, if_false] at h
      by_cases h3 : s3.brk = 2
      · simp only [h3, if_true] at h
        rcases h with h | h
        · cases h
        · injection h with h; subst h; exact ⟨rfl, rfl⟩
      · simp only [h3, if_false] at h
        by_cases h4 : s3.brk = 3
        · simp only [h4, if_true] at h
          rcases h with h | h
          · injection h with h; subst h; exact ⟨rfl, rfl⟩
          · cases h
        · simp only [h4, if_false] at h
          rcases h with h | h
          · cases h
          · injection h with h; subst h; exact ⟨rfl, rfl⟩

theorem forNext_shape (line : Int) (k : Nat) (s3 s' : St) (h : forNext line k s3 = .stop s' ∨ forNext line k s3 = .again s') :
    s'.bad = s3.bad ∧ s'.scopes = s3.scopes := by
  unfold forNext at h
  by_cases h1 : k + 1 > maxLoop
  · simp only [h1, if_true] at h
    rcases h with h | h
    · injection h with h; subst h; split <;> exact ⟨rfl, rfl⟩
    · cases h
  · simp only [h1, if_false] at h
    by_cases h2 : s3.brk = 1
    · simp only [h2, if_true] at h
      rcases h with h | h
      · injection h with h; subst h; exact ⟨rfl, rfl⟩
      · cases h
    · simp only [h2, if_false] at h
      by_cases h3 : s3.brk = 2
      · simp only [h3, if_true] at h
        rcases h with h | h
        · cases h
        · injection h with h; subst h; exact ⟨rfl, rfl⟩
      · simp only [h3, if_false] at h
        rcases h with h | h
        · cases h
        · injection h with h; subst h; exact ⟨rfl, rfl⟩

theorem good_next_while {line : Int} {k : Nat} {s3 s' : St} (h : whileNext line k s3 = .stop s' ∨ whileNext line k s3 = .again s')
    (hg : Good s3) : Good s' := by
  obtain ⟨h1, h2⟩ := whileNext_shape line k s3 s' h
  exact ⟨h1.trans hg.1, by rw [h2]; exact hg.2⟩
theorem good_next_for {line : Int} {k : Nat} {s3 s' : St} (h : forNext line k s3 = .stop s' ∨ forNext line k s3 = .again s')
    (hg : Good s3) : Good s' := by
  obtain ⟨h1, h2⟩ := forNext_shape line k s3 s' h
  exact ⟨h1.trans hg.1, by rw [h2]; exact hg.2⟩

theorem leaveCall_bad (bound s1 : St) (h : s1.scopes ≠ []) : (leaveCall bound s1).bad = s1.bad := by
  unfold leaveCall
  cases hs : s1.scopes with
  | nil => exact absurd hs h
  | cons v r =>
    simp only []
    split <;> rfl

section
variable (fns : List Fn) (nf : List Nat)

/-- with the need covered, the failure state is not reached -/
def NS (f : Nat) : Prop :=
  (∀ t s, Stm fns t → needTok nf t ≤ f → Good s → Good (execTok fns f t s)) ∧
  (∀ t s, Arg fns t → needTok nf t ≤ f → Good s → Good (execTok fns f t s)) ∧
  (∀ l s, (∀ t ∈ l, Stm fns t) → needList nf l ≤ f → Good s → Good (execList fns f l s)) ∧
  (∀ l s, ValL fns l → needList nf l ≤ f → Good s → Good (execList fns f l s)) ∧
  (∀ l s, (∀ a ∈ l, Arg fns a) → needList nf l + 1 ≤ f → Good s → Good (execArgs fns f l s).2) ∧
  (∀ line c b k s, ValL fns c → (∀ t ∈ b, Stm fns t) → needList nf c + 1 + (maxLoop - k) ≤ f → needList nf b + 1 + (maxLoop - k) ≤ f →
      Good s → Good (whileGo fns f line c b k s)) ∧
  (∀ line c n b k s, ValL fns c → (∀ t ∈ n, Stm fns t) → (∀ t ∈ b, Stm fns t) → needList nf c + 1 + (maxLoop - k) ≤ f →
      needList nf n + 1 + (maxLoop - k) ≤ f → needList nf b + 1 + (maxLoop - k) ≤ f → Good s → Good (forGo fns f line c n b k s))

theorem ns_zero : NS fns nf 0 := by
  refine ⟨?_, ?_, ?_, ?_, ?_, ?_, ?_⟩
  · intro t s _ h; have := needTok_kids nf t; omega
  · intro t s _ h; have := needTok_kids nf t; omega
  · intro l s _ h; have := needList_ge2 nf l; omega
  · intro l s _ h; have := needList_ge2 nf l; omega
  · intro l s _ h; omega
  · intro line c b k s _ _ h; omega
  · intro line c n b k s _ _ _ h; omega

theorem value_good (g : Nat) (ih : NS fns nf g) (c : List Tok) (hc : ValL fns c) (hn : needList nf c ≤ g) (s : St) (hs : Good s) :
    Good (valueWith (execList fns g) c s).2 := by
  have h := ih.2.2.2.1 c { s with needRet := true } hc hn ⟨hs.1, hs.2⟩
  unfold valueWith
  have hp := good_pop h
  exact ⟨hp.1, hp.2⟩

theorem args_good (g : Nat) (ih : NS fns nf g) (l : List Tok) (hl : ∀ a ∈ l, Arg fns a) (hn : needList nf l + 1 ≤ g) (s : St) (hs : Good s) :
    Good (argsWith (execArgs fns g) l s).2 := by
  have h := ih.2.2.2.2.1 l { s with needRet := true } hl hn ⟨hs.1, hs.2⟩
  unfold argsWith
  exact ⟨h.1, h.2⟩

theorem ns_list (f : Nat) (ih : NS fns nf f) : ∀ l s, (∀ t ∈ l, Stm fns t) → needList nf l ≤ f + 1 → Good s → Good (execList fns (f + 1) l s) := by
  intro l s hl hn hs
  cases l with
  | nil => rw [execList]; exact hs
  | cons t ts =>
    have h1 := needList_cons_tok nf t ts
    have h2 := needList_cons_tail nf t ts
    rw [execList]
    by_cases hb : s.brk ≠ 0
    · rw [if_pos hb]; exact hs
    · rw [if_neg hb]
      exact ih.2.2.1 ts _ (fun x hx => hl x (List.mem_cons_of_mem _ hx)) (by omega)
        (ih.1 t s (hl t List.mem_cons_self) (by omega) hs)

theorem ns_val (f : Nat) (ih : NS fns nf f) : ∀ l s, ValL fns l → needList nf l ≤ f + 1 → Good s → Good (execList fns (f + 1) l s) := by
  intro l s hl hn hs
  rcases hl with rfl | ⟨a, rfl, ha⟩
  · rw [execList]; exact hs
  · have h3 := needList_single nf a
    rw [execList]
    by_cases hb : s.brk ≠ 0
    · rw [if_pos hb]; exact hs
    · rw [if_neg hb]
      have hg := ih.2.1 a s ha (by omega) hs
      cases f with
      | zero => omega
      | succ g => rw [execList]; exact hg

theorem ns_args (f : Nat) (ih : NS fns nf f) : ∀ l s, (∀ a ∈ l, Arg fns a) → needList nf l + 1 ≤ f + 1 → Good s →
    Good (execArgs fns (f + 1) l s).2 := by
  intro l s hl hn hs
  cases l with
  | nil => rw [execArgs]; exact hs
  | cons t ts =>
    have h1 := needList_cons_tok nf t ts
    have h2 := needList_cons_tail nf t ts
    have h3 := needList_single nf t
    rw [execArgs]
    simp only []
    have hg := ih.2.2.2.1 [t] s (Or.inr ⟨t, rfl, hl t List.mem_cons_self⟩) (by omega) hs
    exact ih.2.2.2.2.1 ts _ (fun x hx => hl x (List.mem_cons_of_mem _ hx)) (by omega) (good_pop hg)

theorem ns_while (f : Nat) (ih : NS fns nf f) : ∀ line c b k s, ValL fns c → (∀ t ∈ b, Stm fns t) →
    needList nf c + 1 + (maxLoop - k) ≤ f + 1 → needList nf b + 1 + (maxLoop - k) ≤ f + 1 → Good s → Good (whileGo fns (f + 1) line c b k s) := by
  intro line c b k s hc hb hnc hnb hs
  have hv := value_good fns nf f ih c hc (by omega) s hs
  rw [whileGo]
  by_cases hcond : (valueWith (execList fns f) c s).1.toB = false
  · simp only [hcond, if_true]; exact hv
  · simp only [hcond]
    have hbody := ih.2.2.1 b _ hb (by omega) hv
    cases hn : whileNext line k (execList fns f b (valueWith (execList fns f) c s).2) with
    | stop s' => exact good_next_while (Or.inl hn) hbody
    | again s' =>
      have := whileNext_again_lt _ _ _ _ hn
      exact ih.2.2.2.2.2.1 line c b (k + 1) s' hc hb (by omega) (by omega) (good_next_while (Or.inr hn) hbody)

theorem ns_for (f : Nat) (ih : NS fns nf f) : ∀ line c n b k s, ValL fns c → (∀ t ∈ n, Stm fns t) → (∀ t ∈ b, Stm fns t) →
    needList nf c + 1 + (maxLoop - k) ≤ f + 1 → needList nf n + 1 + (maxLoop - k) ≤ f + 1 → needList nf b + 1 + (maxLoop - k) ≤ f + 1 →
    Good s → Good (forGo fns (f + 1) line c n b k s) := by
  intro line c n b k s hc hnn hb hnc hn2 hnb hs
  have hv := value_good fns nf f ih c hc (by omega) s hs
  rw [forGo]
  by_cases hcond : (valueWith (execList fns f) c s).1.toB = false
  · simp only [hcond, if_true]; exact hv
  · simp only [hcond]
    have hbody := ih.2.2.1 b _ hb (by omega) hv
    cases hn : forNext line k (execList fns f b (valueWith (execList fns f) c s).2) with
    | stop s' => exact good_next_for (Or.inl hn) hbody
    | again s' =>
      have := forNext_again_lt _ _ _ _ hn
      simp only []
      have hinc := ih.2.2.1 n s' hnn (by omega) (good_next_for (Or.inr hn) hbody)
      exact ih.2.2.2.2.2.2 line c n b (k + 1) _ hc hnn hb (by omega) (by omega) (by omega) hinc

theorem need_mk (ty : TT) (vi tag line : Int) (vs : Option (List Nat)) (data : List Dat) (kids : List Tok) :
    needList nf kids + 2 ≤ needTok nf (.mk ty vi tag line vs data (some kids)) := by
  have := needTok_kids nf (.mk ty vi tag line vs data (some kids))
  rwa [kids_mk] at this

theorem need_kid (kids : List Tok) (c : Tok) (hc : c ∈ kids) : needList nf c.kids + 5 ≤ needList nf kids := by
  have := needList_mem nf kids c hc
  have := needTok_kids nf c
  omega

/-- the call arm -/
theorem call_good (hfn : FnsNeed fns nf) (hok : FnsOK fns) (g : Nat) (ih : NS fns nf g) (vi tag line : Int) (vs : Option (List Nat))
    (data : List Dat) (kids : List Tok) (h0 : 0 ≤ tag) (hlt : tag.toNat < fns.length) (hk : ∀ a ∈ kids, Arg fns a) (s : St)
    (hn : needTok nf (.mk .callUser vi tag line vs data (some kids)) ≤ g + 1) (hs : Good s) :
    Good (execTok fns (g + 1) (.mk .callUser vi tag line vs data (some kids)) s) := by
  refine ⟨?_, by rw [call_scopes]; exact hs.2⟩
  have hget : fns[tag.toNat]? = some fns[tag.toNat] := List.getElem?_eq_getElem hlt
  have hneg : ¬ (tag < 0) := by omega
  have hbody : ∀ t ∈ (fns[tag.toNat]).body, Stm fns t := hok _ (List.getElem_mem hlt)
  have h5 := needTok_call nf (.mk .callUser vi tag line vs data (some kids)) rfl
  simp only [kids_mk, Tok.tag] at h5
  have h6 := hfn _ _ hget
  rw [execTok]
  simp only [Tok.ty, Tok.tag, kids_mk, hget, hneg, if_false]
  have ha := args_good fns nf g ih kids hk (by omega) { s with scopes := [] :: s.scopes } ⟨hs.1, by simp⟩
  have hb := good_bindParams (fns[tag.toNat]) (argsWith (execArgs fns g) kids { s with scopes := [] :: s.scopes }).1 ha
  have hc := ih.2.2.1 (fns[tag.toNat]).body
    { (bindParams (fns[tag.toNat]) (argsWith (execArgs fns g) kids { s with scopes := [] :: s.scopes }).1
        (argsWith (execArgs fns g) kids { s with scopes := [] :: s.scopes }).2) with needRet := false } hbody (by omega) ⟨hb.1, hb.2⟩
  rw [leaveCall_bad _ _ hc.2]
  exact hc.1

theorem ns_stm (hfn : FnsNeed fns nf) (hok : FnsOK fns) (f : Nat) (ih : NS fns nf f) :
    ∀ t s, Stm fns t → needTok nf t ≤ f + 1 → Good s → Good (execTok fns (f + 1) t s) := by
  intro t s ht hn hs
  cases ht with
  | lineNo => rw [execTok]; exact hs
  | defInt vi tag line k data kids hv =>
    have h1 := need_mk nf .defInt vi tag line (some k) data kids
    have hv' := value_good fns nf f ih kids hv (by omega) s hs
    rw [execTok]
    simp only [Tok.ty, Tok.vs, kids_mk]
    exact good_setVar hv' _ _
  | defStr vi tag line k data kids hv =>
    have h1 := need_mk nf .defStr vi tag line (some k) data kids
    have hv' := value_good fns nf f ih kids hv (by omega) s hs
    rw [execTok]
    simp only [Tok.ty, Tok.vs, kids_mk]
    exact good_setVar hv' _ _
  | letVar vi tag line vs k data kids hv =>
    have h1 := need_mk nf .letVar vi tag line vs (.str k :: data) kids
    have hv' := value_good fns nf f ih kids hv (by omega) s hs
    rw [execTok]
    simp only [Tok.ty, Tok.data, kids_mk]
    exact good_setVar hv' _ _
  | valueInc =>
    rw [execTok]
    simp only [Tok.ty]
    exact good_setVar hs _ _
  | print vi tag line vs data kids hk =>
    have h1 := need_mk nf .print vi tag line vs data kids
    have ha := args_good fns nf f ih kids hk (by omega) s hs
    rw [execTok]
    simp only [Tok.ty, kids_mk]
    exact ⟨ha.1, ha.2⟩
  | block vi tag line vs data kids hk =>
    have h1 := need_mk nf .tokens vi tag line vs data kids
    rw [execTok]
    simp only [Tok.ty, kids_mk]
    exact ih.2.2.1 kids s hk (by omega) hs
  | if_ vi tag line vs data c th el rest hc hth hel =>
    have h1 := need_mk nf .if_ vi tag line vs data (c :: th :: el :: rest)
    have k1 := need_kid nf (c :: th :: el :: rest) c (by simp)
    have k2 := need_kid nf (c :: th :: el :: rest) th (by simp)
    have k3 := need_kid nf (c :: th :: el :: rest) el (by simp)
    have hv' := value_good fns nf f ih c.kids hc (by omega) s hs
    rw [execTok]
    simp only [Tok.ty, kids_mk]
    split
    · exact ih.2.2.1 _ _ hth (by omega) hv'
    · exact ih.2.2.1 _ _ hel (by omega) hv'
  | while_ vi tag line vs data c b rest hc hb =>
    have h1 := needTok_loop nf (.mk .while_ vi tag line vs data (some (c :: b :: rest))) (Or.inl rfl)
    rw [kids_mk] at h1
    have k1 := need_kid nf (c :: b :: rest) c (by simp)
    have k2 := need_kid nf (c :: b :: rest) b (by simp)
    rw [execTok]
    simp only [Tok.ty, kids_mk, Tok.line]
    exact ih.2.2.2.2.2.1 line _ _ 0 s hc hb (by omega) (by omega) hs
  | for_ vi tag line vs data i c n b rest hi hc hnn hb =>
    have h1 := needTok_loop nf (.mk .for_ vi tag line vs data (some (i :: c :: n :: b :: rest))) (Or.inr rfl)
    rw [kids_mk] at h1
    have k0 := need_kid nf (i :: c :: n :: b :: rest) i (by simp)
    have k1 := need_kid nf (i :: c :: n :: b :: rest) c (by simp)
    have k2 := need_kid nf (i :: c :: n :: b :: rest) n (by simp)
    have k3 := need_kid nf (i :: c :: n :: b :: rest) b (by simp)
    rw [execTok]
    simp only [Tok.ty, kids_mk, Tok.line]
    have hi' := ih.2.2.1 _ s hi (by omega) hs
    exact ih.2.2.2.2.2.2 line _ _ _ 0 _ hc hnn hb (by omega) (by omega) (by omega) hi'
  | break_ => rw [execTok]; exact ⟨hs.1, hs.2⟩
  | continue_ => rw [execTok]; exact ⟨hs.1, hs.2⟩
  | return_ vi tag line vs data kids hv =>
    have h1 := need_mk nf .return_ vi tag line vs data kids
    have hv' := value_good fns nf f ih kids hv (by omega) s hs
    rw [execTok]
    simp only [Tok.ty, kids_mk]
    have := good_setVar hv' strResult (valueWith (execList fns f) kids s).1
    exact ⟨this.1, this.2⟩
  | call vi tag line vs data kids h0 hlt hk =>
    exact call_good fns nf hfn hok f ih vi tag line vs data kids h0 hlt hk s hn hs
  | noteN =>
    rw [execTok]
    simp only [Tok.ty, Tok.data]
    exact ⟨hs.1, hs.2⟩

theorem ns_arg (hfn : FnsNeed fns nf) (hok : FnsOK fns) (f : Nat) (ih : NS fns nf f) :
    ∀ t s, Arg fns t → needTok nf t ≤ f + 1 → Good s → Good (execTok fns (f + 1) t s) := by
  intro t s ht hn hs
  cases ht with
  | empty vi tag line vs data =>
    have h1 := need_mk nf .tokens vi tag line vs data []
    rw [execTok]
    simp only [Tok.ty, kids_mk]
    exact ih.2.2.1 [] s (by simp) (by omega) hs
  | ex he =>
    cases he with
    | constInt => rw [execTok]; exact ⟨hs.1, hs.2⟩
    | constStr => rw [execTok]; exact ⟨hs.1, hs.2⟩
    | getVar => rw [execTok]; exact ⟨hs.1, hs.2⟩
    | calcNot vi line vs data kids hk =>
      have h1 := need_mk nf .calcTree vi 33 line vs data kids
      have ha := args_good fns nf f ih kids hk (by omega) s hs
      rw [execTok]
      simp only [Tok.ty, Tok.tag, kids_mk]
      exact ⟨ha.1, ha.2⟩
    | calcBin vi tag line vs data kids h0 h33 hop hk =>
      have h1 := need_mk nf .calcTree vi tag line vs data kids
      have ha := args_good fns nf f ih kids hk (by omega) s hs
      rw [execTok]
      simp only [Tok.ty, Tok.tag, kids_mk, h0, h33, if_false]
      split
      · exact ⟨ha.1, ha.2⟩
      · rename_i hnone
        exact absurd hnone (hop _ _)
    | calcWrap vi line vs data e he' =>
      have h1 := need_mk nf .calcTree vi 0 line vs data [e]
      rw [execTok]
      simp only [Tok.ty, Tok.tag, kids_mk, if_true]
      exact ih.2.2.2.1 [e] s (Or.inr ⟨e, rfl, Arg.ex he'⟩) (by omega) hs
    | wrap vi tag line vs data e he' =>
      have h1 := need_mk nf .tokens vi tag line vs data [e]
      rw [execTok]
      simp only [Tok.ty, kids_mk]
      exact ih.2.2.2.1 [e] s (Or.inr ⟨e, rfl, Arg.ex he'⟩) (by omega) hs
    | call vi tag line vs data kids h0 hlt hk =>
      exact call_good fns nf hfn hok f ih vi tag line vs data kids h0 hlt hk s hn hs

theorem ns_step (hfn : FnsNeed fns nf) (hok : FnsOK fns) (f : Nat) (ih : NS fns nf f) : NS fns nf (f + 1) :=
  ⟨ns_stm fns nf hfn hok f ih, ns_arg fns nf hfn hok f ih, ns_list fns nf f ih, ns_val fns nf f ih, ns_args fns nf f ih,
   ns_while fns nf f ih, ns_for fns nf f ih⟩

theorem ns_all (hfn : FnsNeed fns nf) (hok : FnsOK fns) : ∀ f, NS fns nf f
  | 0 => ns_zero fns nf
  | f + 1 => ns_step fns nf hfn hok f (ns_all hfn hok f)

/-- **progress**: a lexer-shaped program run with its need as fuel never reaches the failure state -/
theorem run_not_stuck (hfn : FnsNeed fns nf) (hok : FnsOK fns) (toks : List Tok) (ht : ∀ t ∈ toks, Stm fns t) (f : Nat)
    (h : needList nf toks ≤ f) : (run fns toks f).bad = false :=
  ((ns_all fns nf hfn hok f).2.2.1 toks {} ht h ⟨rfl, by simp⟩).1

end
end Sakura.Sx
