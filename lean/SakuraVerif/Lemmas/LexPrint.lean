import SakuraVerif.Model.Lexer
import SakuraVerif.Lemmas.ExecRefine
/-! # print → lex: the model lexer reads the printed program back as the compiled token list

`printL` writes a program of the core note language in a canonical layout (no blank inside a command, one blank after it);
the theorems show, reader by reader and then for whole programs, that `Lx.lexLoop` on the printed text yields exactly the
tokens `Ex2.rawL (Ex2.toTreesL cs)` that `exec_refines_sem` is about. -/
namespace Sakura.Lp
open Sakura Sakura.Lx

/-! ## decimal numbers -/

/-- decimal digits of a natural number, most significant first -/
def decDigits (n : Nat) : List Nat :=
  if h : n < 10 then [48 + n] else decDigits (n / 10) ++ [48 + n % 10]
decreasing_by omega

theorem decDigits_digit (n : Nat) : ∀ c ∈ decDigits n, isDigit c = true := by
  induction n using Nat.strongRecOn with
  | _ n ih =>
    intro c hc
    rw [decDigits] at hc
    split at hc
    · simp at hc; subst hc; simp [isDigit]; omega
    · rcases List.mem_append.mp hc with h1 | h1
      · exact ih (n / 10) (by omega) c h1
      · simp at h1; subst h1; simp [isDigit]; omega

theorem decDigits_ne_nil (n : Nat) : decDigits n ≠ [] := by
  rw [decDigits]; split <;> simp

theorem accDec_append_digits (ds : List Nat) (hd : ∀ c ∈ ds, isDigit c = true) (acc : Int) (r : List Nat) :
    accDec acc (ds ++ r) = accDec (ds.foldl (fun (a : Int) (c : Nat) => a * 10 + ((c : Int) - 48)) acc) r := by
  induction ds generalizing acc with
  | nil => rfl
  | cons d ds ih =>
    have h1 : isDigit d = true := hd d List.mem_cons_self
    simp only [List.cons_append, accDec, h1, if_true, List.foldl_cons]
    exact ih (fun c hc => hd c (List.mem_cons_of_mem _ hc)) _

theorem foldl_decDigits (n : Nat) (acc : Int) :
    (decDigits n).foldl (fun (a : Int) (c : Nat) => a * 10 + ((c : Int) - 48)) acc = acc * 10 ^ (decDigits n).length + n := by
  induction n using Nat.strongRecOn generalizing acc with
  | _ n ih =>
    rw [decDigits]
    split
    · simp; omega
    · rename_i h
      rw [List.foldl_append, ih (n / 10) (by omega)]
      simp only [List.foldl_cons, List.foldl_nil, List.length_append, List.length_cons, List.length_nil]
      have : (n : Int) = (n / 10 : Nat) * 10 + (n % 10 : Nat) := by omega
      rw [Int.pow_succ, ← Int.mul_assoc, Int.add_mul]
      generalize acc * (10 : Int) ^ (decDigits (n / 10)).length = X
      omega


def printInt (i : Int) : List Nat := if i < 0 then 45 :: decDigits i.natAbs else decDigits i.toNat

/-- what may follow a number: not a digit (the number ends there) and not `x`/`o` (which after a lone `0` would start a radix prefix) -/
def NumEnd (r : List Nat) : Prop := ∀ c r', r = c :: r' → isDigit c = false ∧ c ≠ 120 ∧ c ≠ 111

theorem accDec_nonDigit (acc : Int) (r : List Nat) (h : NumEnd r) : accDec acc r = (acc, r) := by
  cases r with
  | nil => rfl
  | cons c r' => simp [accDec, (h c r' rfl).1]

theorem accDec_decDigits (n : Nat) (r : List Nat) (h : NumEnd r) : accDec 0 (decDigits n ++ r) = ((n : Int), r) := by
  rw [accDec_append_digits _ (decDigits_digit n), foldl_decDigits, accDec_nonDigit _ _ h]
  simp

theorem digit_facts (c : Nat) (h : isDigit c = true) : c ≠ 45 ∧ c ≠ 36 ∧ c ≠ 120 ∧ c ≠ 111 ∧ 48 ≤ c ∧ c ≤ 57 := by
  simp [isDigit] at h; omega

/-- the body of `get_int` after the sign, on printed digits -/
theorem getIntBody_decDigits (d sgn : Int) (n : Nat) (r : List Nat) (h : NumEnd r) :
    getIntBody d (sgn, decDigits n ++ r) = ((n : Int) * sgn, r) := by
  have hne := decDigits_ne_nil n
  have hall := decDigits_digit n
  have hacc := accDec_decDigits n r h
  cases hd : decDigits n with
  | nil => exact absurd hd hne
  | cons d0 ds =>
    rw [hd] at hall hacc
    have f0 := digit_facts d0 (hall d0 List.mem_cons_self)
    have hsecond : ∀ c, (ds ++ r).head? = some c → c ≠ 120 ∧ c ≠ 111 := by
      intro c hc
      cases ds with
      | nil =>
        cases r with
        | nil => simp at hc
        | cons c' r' => simp at hc; subst hc; exact ⟨(h c' r' rfl).2.1, (h c' r' rfl).2.2⟩
      | cons d1 ds' =>
        simp at hc; subst hc
        have f1 := digit_facts d1 (hall d1 (by simp))
        exact ⟨f1.2.2.1, f1.2.2.2.1⟩
    simp only [List.cons_append] at hacc ⊢
    unfold getIntBody
    have h1 : ¬ (startsWith [48, 120] (d0 :: (ds ++ r)) = true) := by
      simp only [startsWith, List.isPrefixOf]
      cases hx : ds ++ r with
      | nil => simp
      | cons c rest =>
        have := hsecond c (by simp [hx])
        simp; intro _; exact fun e => this.1 e.symm
    have h2 : ¬ (startsWith [48, 111] (d0 :: (ds ++ r)) = true) := by
      simp only [startsWith, List.isPrefixOf]
      cases hx : ds ++ r with
      | nil => simp
      | cons c rest =>
        have := hsecond c (by simp [hx])
        simp; intro _; exact fun e => this.2 e.symm
    have h3 : ¬ (peek (d0 :: (ds ++ r)) = 36 ∧ d0 :: (ds ++ r) ≠ []) := by simp [peek, f0.2.1]
    have h4 : isDigit (peek (d0 :: (ds ++ r))) = true ∧ d0 :: (ds ++ r) ≠ [] := by
      simp [peek, hall d0 List.mem_cons_self]
    simp only [h1, h2, h3, h4, or_self, if_false, if_true, and_self, hacc]
    simp

theorem stripMinus_digit (c : Nat) (x : List Nat) (h : isDigit c = true) : stripMinus (c :: x) = (1, c :: x) := by
  have := (digit_facts c h).1
  unfold stripMinus
  split
  · rename_i heq; simp at heq; exact absurd heq.1 this
  · rfl

/-- `get_int` on a printed natural number -/
theorem getInt_decDigits (d : Int) (n : Nat) (r : List Nat) (h : NumEnd r) : getInt d (decDigits n ++ r) = ((n : Int), r) := by
  unfold getInt
  cases hd : decDigits n with
  | nil => exact absurd hd (decDigits_ne_nil n)
  | cons d0 ds =>
    have h0 : isDigit d0 = true := decDigits_digit n d0 (by rw [hd]; exact List.mem_cons_self)
    rw [List.cons_append, stripMinus_digit d0 _ h0, ← List.cons_append, ← hd, getIntBody_decDigits d 1 n r h]
    simp

/-- `get_int` on a printed integer -/
theorem getInt_printInt (d i : Int) (r : List Nat) (h : NumEnd r) : getInt d (printInt i ++ r) = (i, r) := by
  unfold printInt
  split
  · rename_i hneg
    unfold getInt
    simp only [List.cons_append, stripMinus]
    rw [getIntBody_decDigits d (-1) i.natAbs r h]
    congr 1
    omega
  · rename_i hpos
    rw [getInt_decDigits d i.toNat r h]
    congr 1
    omega


/-! ## length texts -/

theorem getNoteLength_lenchars (L : List Nat) (hL : ∀ c ∈ L, isLenChar c = true) (f : Nat) (R : List Nat) (ln : Int) :
    getNoteLength (L.length + f) (L ++ R) ln = (L ++ (getNoteLength f R ln).1, (getNoteLength f R ln).2) := by
  induction L with
  | nil => simp
  | cons c cs ih =>
    have hc : isLenChar c = true := hL c List.mem_cons_self
    have : (c :: cs).length + f = (cs.length + f) + 1 := by simp; omega
    rw [this, List.cons_append, getNoteLength]
    simp only [hc, if_true]
    rw [ih (fun x hx => hL x (List.mem_cons_of_mem _ hx))]
    rfl

/-- a character at which a length expression ends and that the scan does not skip -/
def Stop (c : Nat) : Prop := isLenChar c = false ∧ c ≠ 32 ∧ c ≠ 124 ∧ c ≠ 9 ∧ c ≠ 10

theorem getNoteLength_stop (f : Nat) (c : Nat) (r : List Nat) (ln : Int) (h : Stop c) :
    getNoteLength (f + 1) (c :: r) ln = ([], ⟨c :: r, ln⟩) := by
  obtain ⟨h1, h2, h3, h4, h5⟩ := h
  rw [getNoteLength]
  simp [h1, h2, h3, h4, h5]

/-- the text of a length followed directly by a stopping character (e.g. the `,` of a note's arguments) -/
theorem noteLength_then_stop (L : List Nat) (hL : ∀ c ∈ L, isLenChar c = true) (c : Nat) (r : List Nat) (ln : Int) (h : Stop c) :
    (Cur.mk (L ++ c :: r) ln).noteLength = (L, ⟨c :: r, ln⟩) := by
  unfold Cur.noteLength
  have : (L ++ c :: r).length + 1 = L.length + (r.length + 1 + 1) := by simp; omega
  simp only [this]
  rw [getNoteLength_lenchars L hL, getNoteLength_stop _ c r ln h]
  simp

/-- the text of a length followed by one blank and then a stopping character or the end of the text: the blank is consumed -/
theorem noteLength_then_blank (L : List Nat) (hL : ∀ c ∈ L, isLenChar c = true) (r : List Nat) (ln : Int)
    (h : r = [] ∨ ∃ c r', r = c :: r' ∧ Stop c) :
    (Cur.mk (L ++ 32 :: r) ln).noteLength = (L, ⟨r, ln⟩) := by
  unfold Cur.noteLength
  have : (L ++ 32 :: r).length + 1 = L.length + (r.length + 1 + 1) := by simp; omega
  simp only [this]
  rw [getNoteLength_lenchars L hL]
  have hsp : getNoteLength (r.length + 1 + 1) (32 :: r) ln = getNoteLength (r.length + 1) r ln := by
    rw [getNoteLength]; simp [isLenChar, isDigit]
  rw [hsp]
  rcases h with rfl | ⟨c, r', rfl, hc⟩
  · simp [getNoteLength]
  · rw [getNoteLength_stop _ c r' ln hc]; simp


theorem render_lenchars (p : Len.PartSyn) (hd : ∀ c ∈ p.digs, Len.isDigit c = true) : ∀ c ∈ Len.render p, isLenChar c = true := by
  intro c hc
  simp only [Len.render, List.mem_append, List.mem_replicate] at hc
  rcases hc with h | h | h | h
  · split at h <;> simp at h; subst h; decide
  · split at h <;> simp at h; subst h; decide
  · have := hd c h
    simp only [Len.isDigit] at this
    simp [isLenChar, isDigit, this]
  · rw [h.2]; decide

theorem segs_lenchars (ps : List (Nat × Len.PartSyn)) (hsep : ∀ sp ∈ ps, sp.1 = 94 ∨ sp.1 = 43) (hw : ∀ sp ∈ ps, sp.2.wf) :
    ∀ c ∈ Len.segs ps, isLenChar c = true := by
  induction ps with
  | nil => intro c hc; simp [Len.segs] at hc
  | cons sp rest ih =>
    obtain ⟨sep, p⟩ := sp
    intro c hc
    simp only [Len.segs, List.mem_cons, List.mem_append] at hc
    rcases hc with h | h | h
    · rcases hsep (sep, p) List.mem_cons_self with h1 | h1 <;> (simp at h1; subst h; rw [h1]; decide)
    · exact render_lenchars p (hw (sep, p) List.mem_cons_self).1 c h
    · exact ih (fun x hx => hsep x (List.mem_cons_of_mem _ hx)) (fun x hx => hw x (List.mem_cons_of_mem _ hx)) c h

theorem lenText_lenchars (len : Option Core.LenExpr) (h : Ex2.lenOK len) : ∀ c ∈ Ex2.lenText len, isLenChar c = true := by
  cases len with
  | none => intro c hc; simp [Ex2.lenText] at hc
  | some L =>
    obtain ⟨hd, _, hsep, hw, _⟩ := h
    intro c hc
    simp only [Ex2.lenText, List.mem_append] at hc
    rcases hc with h1 | h1
    · exact render_lenchars L.head hd c h1
    · exact segs_lenchars L.parts hsep hw c h1


/-! ## blanks, accidentals, optional integers -/

theorem skipSpace_nonblank (c : Nat) (r : List Nat) (ln : Int) (h : c ≠ 32 ∧ c ≠ 9 ∧ c ≠ 47) :
    (Cur.mk (c :: r) ln).skipSpace = ⟨c :: r, ln⟩ := by
  unfold Cur.skipSpace
  simp only [List.length_cons]
  rw [Lx.skipSpace]
  simp [h.1, h.2.1, h.2.2]

theorem skipSpace_nil (ln : Int) : (Cur.mk [] ln).skipSpace = ⟨[], ln⟩ := by
  unfold Cur.skipSpace; simp [Lx.skipSpace]

theorem skipSpace_blank (c : Nat) (r : List Nat) (ln : Int) (h : c ≠ 32 ∧ c ≠ 9 ∧ c ≠ 47) :
    (Cur.mk (32 :: c :: r) ln).skipSpace = ⟨c :: r, ln⟩ := by
  unfold Cur.skipSpace
  simp only [List.length_cons]
  rw [Lx.skipSpace]
  simp only [true_or, if_true]
  rw [Lx.skipSpace]
  simp [h.1, h.2.1, h.2.2]

theorem skipSpace_blank_nil (ln : Int) : (Cur.mk [32] ln).skipSpace = ⟨[], ln⟩ := by
  unfold Cur.skipSpace
  simp [Lx.skipSpace]

/-- the accidentals of a note: `+`/`-` repeated, then `*` for a natural -/
def accText (acc : Int) (nat : Bool) : List Nat :=
  (if acc ≥ 0 then List.replicate acc.toNat 43 else List.replicate acc.natAbs 45) ++ (if nat then [42] else [])

theorem noteFlags_plus (k : Nat) (X : List Nat) (fl : Int) (n : Bool) :
    noteFlags (List.replicate k 43 ++ X) fl n = noteFlags X (fl + k) n := by
  induction k generalizing fl with
  | zero => simp
  | succ k ih =>
    simp only [List.replicate_succ, List.cons_append, noteFlags, true_or, if_true]
    rw [ih]; congr 1; push_cast; omega

theorem noteFlags_minus (k : Nat) (X : List Nat) (fl : Int) (n : Bool) :
    noteFlags (List.replicate k 45 ++ X) fl n = noteFlags X (fl - k) n := by
  induction k generalizing fl with
  | zero => simp
  | succ k ih =>
    simp only [List.replicate_succ, List.cons_append, noteFlags]
    simp only [show ¬ ((45:Nat) = 43 ∨ (45:Nat) = 35) by decide, if_false, if_true]
    rw [ih]; congr 1; push_cast; omega

/-- the text after the accidentals starts with none of `+ # - *` -/
def NoFlag (R : List Nat) : Prop := ∀ c r, R = c :: r → c ≠ 43 ∧ c ≠ 35 ∧ c ≠ 45 ∧ c ≠ 42

theorem noteFlags_stop (R : List Nat) (h : NoFlag R) (fl : Int) (n : Bool) : noteFlags R fl n = (fl, n, R) := by
  cases R with
  | nil => rfl
  | cons c r =>
    obtain ⟨h1, h2, h3, h4⟩ := h c r rfl
    simp [noteFlags, h1, h2, h3, h4]

theorem noteFlags_accText (acc : Int) (nat : Bool) (R : List Nat) (h : NoFlag R) :
    noteFlags (accText acc nat ++ R) 0 false = (acc, nat, R) := by
  unfold accText
  have hstar : ∀ fl, noteFlags ((if nat then [42] else []) ++ R) fl false = (fl, nat, R) := by
    intro fl
    cases nat with
    | false => simpa using noteFlags_stop R h fl false
    | true =>
      simp only [if_true, List.cons_append, List.nil_append, noteFlags]
      simp only [show ¬ ((42:Nat) = 43 ∨ (42:Nat) = 35) by decide, show ¬ ((42:Nat) = 45) by decide, if_false, if_true]
      exact noteFlags_stop R h fl true
  split
  · rename_i hp
    rw [List.append_assoc, noteFlags_plus, hstar]
    congr 1; omega
  · rename_i hn
    rw [List.append_assoc, noteFlags_minus, hstar]
    congr 1; omega

/-- an optional integer slot -/
def optText : Option Int → List Nat
  | none => []
  | some x => printInt x

/-- nothing number-like starts here -/
def NoNum (R : List Nat) : Prop := ∀ c r, R = c :: r → isDigit c = false ∧ c ≠ 45 ∧ c ≠ 36

theorem getInt_none (d : Int) (R : List Nat) (h : NoNum R) : getInt d R = (d, R) := by
  cases R with
  | nil => simp [getInt, stripMinus, getIntBody, startsWith, peek, isDigit]
  | cons c r =>
    obtain ⟨h1, h2, h3⟩ := h c r rfl
    have hne48 : c ≠ 48 := by intro e; subst e; simp [isDigit] at h1
    have hs : stripMinus (c :: r) = (1, c :: r) := by
      unfold stripMinus; split
      · rename_i heq; simp at heq; exact absurd heq.1 h2
      · rfl
    unfold getInt
    rw [hs]
    unfold getIntBody
    have a1 : ¬ (startsWith [48, 120] (c :: r) = true) := by simp [startsWith, List.isPrefixOf, Ne.symm hne48]
    have a2 : ¬ (startsWith [48, 111] (c :: r) = true) := by simp [startsWith, List.isPrefixOf, Ne.symm hne48]
    simp [a1, a2, peek, h1, h3]


/-- a character a printed command starts with: it ends a length, is no blank, starts no number, no comment, no `&` / `,` -/
def Start (c : Nat) : Prop :=
  isLenChar c = false ∧ c ≠ 32 ∧ c ≠ 124 ∧ c ≠ 9 ∧ c ≠ 10 ∧ c ≠ 47 ∧ c ≠ 36 ∧ c ≠ 38 ∧ c ≠ 44 ∧ c ≠ 35 ∧ c ≠ 42 ∧ c ≠ 46 ∧ c ≠ 95

/-- the text after a printed command: the end of the text or the next command -/
def Next (R : List Nat) : Prop := R = [] ∨ ∃ c r, R = c :: r ∧ Start c

theorem Start.stop {c : Nat} (h : Start c) : Stop c := ⟨h.1, h.2.1, h.2.2.1, h.2.2.2.1, h.2.2.2.2.1⟩
theorem Start.nonblank {c : Nat} (h : Start c) : c ≠ 32 ∧ c ≠ 9 ∧ c ≠ 47 := ⟨h.2.1, h.2.2.2.1, h.2.2.2.2.2.1⟩
theorem Start.notDigit {c : Nat} (h : Start c) : isDigit c = false := by
  have := h.1; simp only [isLenChar, Bool.or_eq_false_iff] at this; exact this.1.1.1.1.1
theorem Start.ne45 {c : Nat} (h : Start c) : c ≠ 45 := by
  have := h.1; simp only [isLenChar, Bool.or_eq_false_iff, decide_eq_false_iff_not] at this; exact this.1.2
theorem Start.ne43 {c : Nat} (h : Start c) : c ≠ 43 := by
  have := h.1; simp only [isLenChar, Bool.or_eq_false_iff, decide_eq_false_iff_not] at this; exact this.2

theorem Next.noNum {R : List Nat} (h : Next R) : NoNum R := by
  intro c r hr
  rcases h with rfl | ⟨c', r', rfl, hs⟩
  · cases hr
  · cases hr; exact ⟨hs.notDigit, hs.ne45, hs.2.2.2.2.2.2.1⟩

theorem numEnd_comma (r : List Nat) : NumEnd (44 :: r) := by
  intro c r' h; cases h; decide
theorem numEnd_blank (r : List Nat) : NumEnd (32 :: r) := by
  intro c r' h; cases h; decide

theorem printInt_head (x : Int) : ∃ c r, printInt x = c :: r ∧ (c = 45 ∨ isDigit c = true) := by
  unfold printInt
  split
  · exact ⟨45, _, rfl, Or.inl rfl⟩
  · cases hd : decDigits x.toNat with
    | nil => exact absurd hd (decDigits_ne_nil _)
    | cons d0 ds => exact ⟨d0, ds, rfl, Or.inr (decDigits_digit _ d0 (by rw [hd]; exact List.mem_cons_self))⟩

/-- a filled slot `,x` followed by text at which the number ends -/
theorem commaInt_some (d : Int) (sp : Bool) (x : Int) (R : List Nat) (ln : Int) (h : NumEnd R) :
    commaInt d sp ⟨44 :: (printInt x ++ R), ln⟩ = (x, ⟨R, ln⟩) := by
  obtain ⟨c, r, hp, hc⟩ := printInt_head x
  have hnb : c ≠ 32 ∧ c ≠ 9 ∧ c ≠ 47 ∧ c ≠ 43 := by
    rcases hc with rfl | hd
    · decide
    · have := digit_facts c hd; omega
  unfold commaInt
  simp only []
  rw [hp, List.cons_append, skipSpace_nonblank c _ ln ⟨hnb.1, hnb.2.1, hnb.2.2.1⟩]
  simp only [peek, List.headD_cons, hnb.2.2.2, false_and, and_false, if_false]
  rw [← List.cons_append, ← hp, getInt_printInt d x R h]

/-- an empty slot `,` followed by the next `,` -/
theorem commaInt_none_comma (d : Int) (sp : Bool) (r : List Nat) (ln : Int) :
    commaInt d sp ⟨44 :: 44 :: r, ln⟩ = (d, ⟨44 :: r, ln⟩) := by
  unfold commaInt
  simp only []
  rw [skipSpace_nonblank 44 r ln (by decide)]
  simp only [peek, List.headD_cons, show ¬ ((44:Nat) = 43) by decide, false_and, and_false, if_false]
  rw [getInt_none d (44 :: r) (by intro c r' h; cases h; decide)]

/-- an empty last slot `,` followed by the blank that ends the command: the blank is consumed -/
theorem commaInt_none_blank (d : Int) (R : List Nat) (ln : Int) (h : Next R) :
    commaInt d false ⟨44 :: 32 :: R, ln⟩ = (d, ⟨R, ln⟩) := by
  unfold commaInt
  simp only []
  rcases h with rfl | ⟨c, r, rfl, hs⟩
  · rw [skipSpace_blank_nil]; simp [getInt_none d [] (by intro c r h; cases h)]
  · rw [skipSpace_blank c r ln hs.nonblank]
    simp only [Bool.false_eq_true, false_and, if_false]
    rw [getInt_none d (c :: r) (Next.noNum (Or.inr ⟨c, r, rfl, hs⟩))]


/-! ## the note reader -/

def slots (q v t o : Option Int) (R : List Nat) : List Nat :=
  44 :: (optText q ++ 44 :: (optText v ++ 44 :: (optText t ++ 44 :: (optText o ++ 32 :: R))))

/-- where the cursor stands after the note: an empty last slot also consumes the blank that follows it -/
def afterNote (o : Option Int) (R : List Nat) : List Nat :=
  match o with
  | none => R
  | some _ => 32 :: R

/-- the length text of a lettered note must not start with a character that reads as an accidental -/
def LenHeadOK (len : Option Core.LenExpr) : Prop := ∀ c r, Ex2.lenText len = c :: r → c ≠ 43 ∧ c ≠ 35 ∧ c ≠ 45 ∧ c ≠ 42

theorem slur_none (R : List Nat) (ln : Int) (h : ∀ c r, R = c :: r → c ≠ 38) : slurSuffix ⟨R, ln⟩ = (.none, ⟨R, ln⟩) := by
  unfold slurSuffix
  cases R with
  | nil => rfl
  | cons c r =>
    have := h c r rfl
    simp only []
    split
    · rename_i heq; simp at heq; exact absurd heq.1 this
    · rfl

theorem commaInt_slot (d : Int) (sp : Bool) (x : Option Int) (r : List Nat) (ln : Int) :
    commaInt d sp ⟨44 :: (optText x ++ 44 :: r), ln⟩ = (x.getD d, ⟨44 :: r, ln⟩) := by
  cases x with
  | none => exact commaInt_none_comma d sp r ln
  | some v => exact commaInt_some d sp v (44 :: r) ln (numEnd_comma r)

theorem readNote_print (ch : Nat) (acc : Int) (nat : Bool) (len : Option Core.LenExpr) (q v t o : Option Int) (R : List Nat) (ln : Int)
    (hl : Ex2.lenOK len) (hh : LenHeadOK len) (hR : Next R) :
    readNote ch ⟨accText acc nat ++ (Ex2.lenText len ++ slots q v t o R), ln⟩ =
      (tok .note (semiOf ch) [.int acc, .int (if nat then 1 else 0), .str (Ex2.lenText len), Ex2.optInt 0 q, Ex2.optInt (-1) v,
        Ex2.optInt intMin t, Ex2.optInt (-1) o, .none], ⟨afterNote o R, ln⟩) := by
  have hnf : NoFlag (Ex2.lenText len ++ slots q v t o R) := by
    intro c r hr
    cases hlt : Ex2.lenText len with
    | nil => rw [hlt] at hr; simp [slots] at hr; rw [← hr.1]; decide
    | cons c' r' => rw [hlt] at hr; simp at hr; rw [← hr.1]; exact hh c' r' hlt
  have hstop44 : Stop 44 := by unfold Stop; decide
  unfold readNote
  simp only []
  rw [noteFlags_accText acc nat _ hnf]
  simp only []
  unfold slots
  rw [noteLength_then_stop _ (lenText_lenchars len hl) 44 _ ln hstop44]
  simp only []
  rw [skipSpace_nonblank 44 _ ln (by decide), commaInt_slot]
  simp only []
  rw [skipSpace_nonblank 44 _ ln (by decide), commaInt_slot]
  simp only []
  rw [skipSpace_nonblank 44 _ ln (by decide), commaInt_slot]
  simp only []
  have hamp : ∀ c r, R = c :: r → c ≠ 38 := by
    intro c r hr
    rcases hR with rfl | ⟨c', r', rfl, hs⟩
    · cases hr
    · cases hr; exact hs.2.2.2.2.2.2.2.1
  cases o with
  | none =>
    simp only [optText, List.nil_append]
    rw [commaInt_none_blank _ R ln hR]
    simp only [afterNote]
    rw [slur_none R ln hamp]
    cases q <;> cases v <;> cases t <;> rfl
  | some x =>
    simp only [optText]
    rw [commaInt_some _ _ x (32 :: R) ln (numEnd_blank R)]
    simp only [afterNote]
    rw [slur_none (32 :: R) ln (by intro c r h; cases h; decide)]
    cases q <;> cases v <;> cases t <;> rfl


/-! ## rests, default length, the value setters, loops -/

theorem next_skipSpace (R : List Nat) (ln : Int) (h : Next R) : (Cur.mk R ln).skipSpace = ⟨R, ln⟩ := by
  rcases h with rfl | ⟨c, r, rfl, hs⟩
  · exact skipSpace_nil ln
  · exact skipSpace_nonblank c r ln hs.nonblank

theorem next_stop_or_nil {R : List Nat} (h : Next R) : R = [] ∨ ∃ c r', R = c :: r' ∧ Stop c := by
  rcases h with rfl | ⟨c, r, rfl, hs⟩
  · exact Or.inl rfl
  · exact Or.inr ⟨c, r, rfl, hs.stop⟩

/-- the sign of a rest: `r` or `r-` -/
def restSign (dir : Int) : List Nat := if dir = -1 then [45] else []

theorem readRest_print (dir : Int) (hd : dir = 1 ∨ dir = -1) (len : Option Core.LenExpr) (R : List Nat) (ln : Int)
    (hl : Ex2.lenOK len) (hh : LenHeadOK len) (hR : Next R) :
    readRest ⟨restSign dir ++ (Ex2.lenText len ++ 32 :: R), ln⟩ = (tok .rest dir [.str (Ex2.lenText len)], ⟨R, ln⟩) := by
  have hL := lenText_lenchars len hl
  have hnl := noteLength_then_blank (Ex2.lenText len) hL R ln (next_stop_or_nil hR)
  -- the text after the sign starts with neither `*` nor `-`
  have hhead : ∀ c r, Ex2.lenText len ++ 32 :: R = c :: r → c ≠ 42 ∧ c ≠ 45 := by
    intro c r hr
    cases hlt : Ex2.lenText len with
    | nil => rw [hlt] at hr; simp at hr; rw [← hr.1]; decide
    | cons c' r' => rw [hlt] at hr; simp at hr; rw [← hr.1]; exact ⟨(hh c' r' hlt).2.2.2, (hh c' r' hlt).2.2.1⟩
  unfold readRest
  rcases hd with rfl | rfl
  · simp only [restSign, show ¬ ((1:Int) = -1) by decide, if_false, List.nil_append]
    cases hx : Ex2.lenText len ++ 32 :: R with
    | nil => simp at hx
    | cons c r =>
      obtain ⟨h42, h45⟩ := hhead c r hx
      have e1 : stripStar (c :: r) = c :: r := by
        unfold stripStar; split
        · rename_i heq; simp at heq; exact absurd heq.1 h42
        · rfl
      have e2 : stripMinus (c :: r) = (1, c :: r) := by
        unfold stripMinus; split
        · rename_i heq; simp at heq; exact absurd heq.1 h45
        · rfl
      simp only [e1, e2]
      rw [← hx, hnl]
      simp only []
      rw [next_skipSpace R ln hR]
  · simp only [restSign, if_true, List.cons_append, List.nil_append]
    have e1 : stripStar (45 :: (Ex2.lenText len ++ 32 :: R)) = 45 :: (Ex2.lenText len ++ 32 :: R) := rfl
    simp only [e1, stripMinus]
    rw [hnl]
    simp only []
    rw [next_skipSpace R ln hR]


/-- the default-length command: the length text must not start with `.` (that form goes through the reservation check) -/
theorem readLength_print (len : Option Core.LenExpr) (R : List Nat) (ln : Int)
    (hl : Ex2.lenOK len) (hdot : ∀ c r, Ex2.lenText len = c :: r → c ≠ 46) (hR : Next R) :
    readLength ⟨Ex2.lenText len ++ 32 :: R, ln⟩ = some (tok .length 0 [.str (Ex2.lenText len)], ⟨R, ln⟩) := by
  have hnl := noteLength_then_blank (Ex2.lenText len) (lenText_lenchars len hl) R ln (next_stop_or_nil hR)
  unfold readLength
  simp only []
  split
  · rename_i r heq
    cases hlt : Ex2.lenText len with
    | nil => rw [hlt] at heq; simp at heq
    | cons c' r' => rw [hlt] at heq; simp at heq; exact absurd heq.1 (hdot c' r' hlt)
  · rw [hnl]

/-- `read_arg_value` on a printed integer -/
theorem argValue_printInt (tb : Int) (x : Int) (R : List Nat) (ln : Int) (h : NumEnd R) :
    (Cur.mk (printInt x ++ R) ln).argValue tb = (.int x, ⟨R, ln⟩) := by
  obtain ⟨c, r, hp, hc⟩ := printInt_head x
  have hnb : c ≠ 32 ∧ c ≠ 9 ∧ c ≠ 47 := by
    rcases hc with rfl | hd
    · decide
    · have := digit_facts c hd; omega
  have hup : ¬ (isUpper c = true ∨ c = 95) := by
    rcases hc with rfl | hd
    · decide
    · have := digit_facts c hd; simp [isUpper]; omega
  have h33 : c ≠ 33 := by
    rcases hc with rfl | hd
    · decide
    · have := digit_facts c hd; omega
  have hnum : c = 45 ∨ isDigit c = true ∨ c = 36 := by
    rcases hc with rfl | hd
    · exact Or.inl rfl
    · exact Or.inr (Or.inl hd)
  unfold Cur.argValue
  simp only [hp, List.cons_append, List.length_cons]
  rw [readArgValue]
  rw [skipSpace_nonblank c _ ln hnb]
  simp only [hup, h33, hnum, if_false, if_true]
  rw [← List.cons_append, ← hp, getInt_printInt 0 x R h]

theorem printInt_not_dot (x : Int) (R : List Nat) : ∀ r, printInt x ++ R ≠ 46 :: r := by
  intro r h
  obtain ⟨c, r', hp, hc⟩ := printInt_head x
  rw [hp] at h; simp at h
  rcases hc with rfl | hd
  · exact absurd h.1 (by decide)
  · have := digit_facts c hd; omega

/-- the common tail of the octave / gate / velocity / timing readers on a printed integer -/
theorem readDotOrValue_print (tb : Int) (rnd plain : TT) (data : List SV) (x : Int) (R : List Nat) (ln : Int) (h : NumEnd R) :
    readDotOrValue tb rnd plain data ⟨printInt x ++ R, ln⟩ = some (tok plain x data, ⟨R, ln⟩) := by
  unfold readDotOrValue
  simp only []
  split
  · rename_i r heq; exact absurd heq (printInt_not_dot x R r)
  · rw [argValue_printInt tb x R ln h]; rfl


/-- the first two characters of a printed integer: a digit, or `-` followed by a digit -/
theorem printInt_shape (x : Int) (R : List Nat) :
    (∃ c r, printInt x ++ R = c :: r ∧ isDigit c = true) ∨ (∃ c r, printInt x ++ R = 45 :: c :: r ∧ isDigit c = true) := by
  unfold printInt
  split
  · right
    cases hd : decDigits x.natAbs with
    | nil => exact absurd hd (decDigits_ne_nil _)
    | cons d0 ds => exact ⟨d0, ds ++ R, by simp, decDigits_digit _ d0 (by rw [hd]; exact List.mem_cons_self)⟩
  · left
    cases hd : decDigits x.toNat with
    | nil => exact absurd hd (decDigits_ne_nil _)
    | cons d0 ds => exact ⟨d0, ds ++ R, by simp, decDigits_digit _ d0 (by rw [hd]; exact List.mem_cons_self)⟩

theorem readOctave_print (tb : Int) (x : Int) (R : List Nat) (ln : Int) (h : NumEnd R) :
    readOctave tb ⟨printInt x ++ R, ln⟩ = some (tok .octave x [], ⟨R, ln⟩) :=
  readDotOrValue_print tb _ _ _ x R ln h

theorem readQlen_print (tb : Int) (x : Int) (R : List Nat) (ln : Int) (h : NumEnd R) :
    readQlen tb ⟨printInt x ++ R, ln⟩ = some (tok .qlen x [], ⟨R, ln⟩) := by
  unfold readQlen
  simp only []
  rcases printInt_shape x R with ⟨c, r, hs, hd⟩ | ⟨c, r, hs, hd⟩
  · have f := digit_facts c hd
    rw [hs]
    split
    · rename_i heq; simp at heq; omega
    · rename_i heq; simp at heq; omega
    · rename_i heq; simp at heq; omega
    · rename_i heq; simp at heq; omega
    · rw [← hs]; exact readDotOrValue_print tb _ _ _ x R ln h
  · have f := digit_facts c hd
    rw [hs]
    split
    · rename_i heq; simp at heq
    · rename_i heq; simp at heq; omega
    · rename_i heq; simp at heq
    · rename_i heq; simp at heq
    · rw [← hs]; exact readDotOrValue_print tb _ _ _ x R ln h

theorem readVelocity_print (tb : Int) (x : Int) (R : List Nat) (ln : Int) (h : NumEnd R) :
    readVelocity tb ⟨printInt x ++ R, ln⟩ = some (tok .velocity x [.int (-1)], ⟨R, ln⟩) := by
  unfold readVelocity
  simp only []
  rcases printInt_shape x R with ⟨c, r, hs, hd⟩ | ⟨c, r, hs, hd⟩
  · have f := digit_facts c hd
    rw [hs]
    split
    · rename_i heq; simp at heq; omega
    · rename_i heq; simp at heq; omega
    · rename_i heq; simp at heq; omega
    · rename_i heq; simp at heq; omega
    · rw [← hs]; exact readDotOrValue_print tb _ _ _ x R ln h
  · have f := digit_facts c hd
    rw [hs]
    split
    · rename_i heq; simp at heq
    · rename_i heq; simp at heq; omega
    · rename_i heq; simp at heq
    · rename_i heq; simp at heq
    · rw [← hs]; exact readDotOrValue_print tb _ _ _ x R ln h

theorem readTiming_print (tb : Int) (x : Int) (R : List Nat) (ln : Int) (h : NumEnd R) :
    readTiming tb ⟨printInt x ++ R, ln⟩ = some (tok .timing x [], ⟨R, ln⟩) := by
  unfold readTiming
  simp only []
  rcases printInt_shape x R with ⟨c, r, hs, hd⟩ | ⟨c, r, hs, hd⟩
  · have f := digit_facts c hd
    rw [hs]
    split
    · rename_i heq; simp at heq; omega
    · rename_i heq; simp at heq; omega
    · rw [← hs]; exact readDotOrValue_print tb _ _ _ x R ln h
  · rw [hs]
    split
    · rename_i heq; simp at heq
    · rename_i heq; simp at heq
    · rw [← hs]; exact readDotOrValue_print tb _ _ _ x R ln h

theorem printInt_nat (n : Nat) : printInt (n : Int) = decDigits n := by
  unfold printInt
  have : ¬ ((n : Int) < 0) := by omega
  simp [this]

/-- the loop count after `[` -/
theorem readLoop_print (tb : Int) (n : Nat) (R : List Nat) (ln : Int) (h : NumEnd R) :
    readLoop tb ⟨decDigits n ++ R, ln⟩ = (tok .loopBegin 0 [.int n], ⟨R, ln⟩) := by
  cases hd : decDigits n with
  | nil => exact absurd hd (decDigits_ne_nil _)
  | cons d0 ds =>
    have h0 : isDigit d0 = true := decDigits_digit _ d0 (by rw [hd]; exact List.mem_cons_self)
    have f := digit_facts d0 h0
    unfold readLoop
    simp only [List.cons_append]
    rw [skipSpace_nonblank d0 _ ln (by omega)]
    simp only [peek, List.headD_cons, h0, true_or, ne_eq, reduceCtorEq, not_false_eq_true, and_self, if_true]
    rw [← List.cons_append, ← hd, ← printInt_nat, argValue_printInt tb n R ln h]


/-! ## the main loop on one command character -/

/-- put a token in front of the result of lexing the rest -/
def pre (t : Tok) (r : Option Out) : Option Out := r.map (fun o => ⟨t :: o.toks, o.errs⟩)

def preL (ts : List Tok) (r : Option Out) : Option Out := r.map (fun o => ⟨ts ++ o.toks, o.errs⟩)

theorem preL_nil (r : Option Out) : preL [] r = r := by cases r <;> rfl
theorem preL_cons (t : Tok) (ts : List Tok) (r : Option Out) : preL (t :: ts) r = pre t (preL ts r) := by cases r <;> rfl
theorem preL_append (a b : List Tok) (r : Option Out) : preL (a ++ b) r = preL a (preL b r) := by
  cases r <;> simp [preL]

theorem zen_ascii (c : Nat) (h : 0x20 ≤ c ∧ c ≤ 0x7E) : Sut.zen2han c = c := by
  unfold Sut.zen2han; simp [h]

theorem lex_blank (tb : Int) (f : Nat) (cs : List Nat) (ln : Int) (harm : Bool) :
    lexLoop tb (f + 1) (32 :: cs) ln harm = lexLoop tb f cs ln harm := by
  rw [lexLoop]
  simp [zen_ascii 32 (by decide)]

theorem lex_noteLetter (tb : Int) (f : Nat) (ch : Nat) (hc : ch = 99 ∨ ch = 100 ∨ ch = 101 ∨ ch = 102 ∨ ch = 103 ∨ ch = 97 ∨ ch = 98)
    (cs : List Nat) (ln : Int) (harm : Bool) :
    lexLoop tb (f + 1) (ch :: cs) ln harm =
      pre (readNote ch ⟨cs, ln⟩).1 (lexLoop tb f (readNote ch ⟨cs, ln⟩).2.s (readNote ch ⟨cs, ln⟩).2.line harm) := by
  have hz : Sut.zen2han ch = ch := zen_ascii ch (by omega)
  rw [lexLoop]
  simp only [hz]
  have h1 : ¬ (ch = 32 ∨ ch = 9 ∨ ch = 13 ∨ ch = 124 ∨ ch = 59) := by omega
  have h2 : ¬ (ch = 10) := by omega
  simp only [h1, h2, hc, if_false, if_true]
  cases lexLoop tb f (readNote ch ⟨cs, ln⟩).2.s (readNote ch ⟨cs, ln⟩).2.line harm <;> rfl


theorem lex_rest (tb : Int) (f : Nat) (cs : List Nat) (ln : Int) (harm : Bool) :
    lexLoop tb (f + 1) (114 :: cs) ln harm =
      pre (readRest ⟨cs, ln⟩).1 (lexLoop tb f (readRest ⟨cs, ln⟩).2.s (readRest ⟨cs, ln⟩).2.line harm) := by
  rw [lexLoop]
  simp only [zen_ascii 114 (by decide)]
  simp (config := { decide := true }) only [if_false, if_true]
  cases lexLoop tb f (readRest ⟨cs, ln⟩).2.s (readRest ⟨cs, ln⟩).2.line harm <;> rfl

theorem lex_length (tb : Int) (f : Nat) (cs : List Nat) (ln : Int) (harm : Bool) (r : Tok × Cur) (hr : readLength ⟨cs, ln⟩ = some r) :
    lexLoop tb (f + 1) (108 :: cs) ln harm = pre r.1 (lexLoop tb f r.2.s r.2.line harm) := by
  rw [lexLoop]
  simp only [zen_ascii 108 (by decide)]
  simp (config := { decide := true }) only [if_false, if_true, hr]
  cases lexLoop tb f r.2.s r.2.line harm <;> rfl

theorem lex_octave (tb : Int) (f : Nat) (cs : List Nat) (ln : Int) (harm : Bool) (r : Tok × Cur) (hr : readOctave tb ⟨cs, ln⟩ = some r) :
    lexLoop tb (f + 1) (111 :: cs) ln harm = pre r.1 (lexLoop tb f r.2.s r.2.line harm) := by
  rw [lexLoop]
  simp only [zen_ascii 111 (by decide)]
  simp (config := { decide := true }) only [if_false, if_true, hr]
  cases lexLoop tb f r.2.s r.2.line harm <;> rfl

theorem lex_qlen (tb : Int) (f : Nat) (cs : List Nat) (ln : Int) (harm : Bool) (r : Tok × Cur) (hr : readQlen tb ⟨cs, ln⟩ = some r) :
    lexLoop tb (f + 1) (113 :: cs) ln harm = pre r.1 (lexLoop tb f r.2.s r.2.line harm) := by
  rw [lexLoop]
  simp only [zen_ascii 113 (by decide)]
  simp (config := { decide := true }) only [if_false, if_true, hr]
  cases lexLoop tb f r.2.s r.2.line harm <;> rfl

theorem lex_velocity (tb : Int) (f : Nat) (cs : List Nat) (ln : Int) (harm : Bool) (r : Tok × Cur) (hr : readVelocity tb ⟨cs, ln⟩ = some r) :
    lexLoop tb (f + 1) (118 :: cs) ln harm = pre r.1 (lexLoop tb f r.2.s r.2.line harm) := by
  rw [lexLoop]
  simp only [zen_ascii 118 (by decide)]
  simp (config := { decide := true }) only [if_false, if_true, hr]
  cases lexLoop tb f r.2.s r.2.line harm <;> rfl

theorem lex_timing (tb : Int) (f : Nat) (cs : List Nat) (ln : Int) (harm : Bool) (r : Tok × Cur) (hr : readTiming tb ⟨cs, ln⟩ = some r) :
    lexLoop tb (f + 1) (116 :: cs) ln harm = pre r.1 (lexLoop tb f r.2.s r.2.line harm) := by
  rw [lexLoop]
  simp only [zen_ascii 116 (by decide)]
  simp (config := { decide := true }) only [if_false, if_true, hr]
  cases lexLoop tb f r.2.s r.2.line harm <;> rfl

theorem lex_octUp (tb : Int) (f : Nat) (cs : List Nat) (ln : Int) (harm : Bool) :
    lexLoop tb (f + 1) (62 :: cs) ln harm = pre (tok .octaveRel 1 []) (lexLoop tb f cs ln harm) := by
  rw [lexLoop]
  simp only [zen_ascii 62 (by decide)]
  simp (config := { decide := true }) only [if_false, if_true]
  cases lexLoop tb f cs ln harm <;> rfl

theorem lex_octDown (tb : Int) (f : Nat) (cs : List Nat) (ln : Int) (harm : Bool) :
    lexLoop tb (f + 1) (60 :: cs) ln harm = pre (tok .octaveRel (-1) []) (lexLoop tb f cs ln harm) := by
  rw [lexLoop]
  simp only [zen_ascii 60 (by decide)]
  simp (config := { decide := true }) only [if_false, if_true]
  cases lexLoop tb f cs ln harm <;> rfl

theorem lex_velUp (tb : Int) (f : Nat) (cs : List Nat) (ln : Int) (harm : Bool) :
    lexLoop tb (f + 1) (41 :: cs) ln harm = pre (tok .velocityRel 1 []) (lexLoop tb f cs ln harm) := by
  rw [lexLoop]
  simp only [zen_ascii 41 (by decide)]
  simp (config := { decide := true }) only [if_false, if_true]
  cases lexLoop tb f cs ln harm <;> rfl

theorem lex_velDown (tb : Int) (f : Nat) (cs : List Nat) (ln : Int) (harm : Bool) :
    lexLoop tb (f + 1) (40 :: cs) ln harm = pre (tok .velocityRel (-1) []) (lexLoop tb f cs ln harm) := by
  rw [lexLoop]
  simp only [zen_ascii 40 (by decide)]
  simp (config := { decide := true }) only [if_false, if_true]
  cases lexLoop tb f cs ln harm <;> rfl

theorem lex_loopBegin (tb : Int) (f : Nat) (cs : List Nat) (ln : Int) (harm : Bool) :
    lexLoop tb (f + 1) (91 :: cs) ln harm =
      pre (readLoop tb ⟨cs, ln⟩).1 (lexLoop tb f (readLoop tb ⟨cs, ln⟩).2.s (readLoop tb ⟨cs, ln⟩).2.line harm) := by
  rw [lexLoop]
  simp only [zen_ascii 91 (by decide)]
  simp (config := { decide := true }) only [if_false, if_true]
  cases lexLoop tb f (readLoop tb ⟨cs, ln⟩).2.s (readLoop tb ⟨cs, ln⟩).2.line harm <;> rfl

theorem lex_loopBreak (tb : Int) (f : Nat) (cs : List Nat) (ln : Int) (harm : Bool) :
    lexLoop tb (f + 1) (58 :: cs) ln harm = pre (tok .loopBreak 0 []) (lexLoop tb f cs ln harm) := by
  rw [lexLoop]
  simp only [zen_ascii 58 (by decide)]
  simp (config := { decide := true }) only [if_false, if_true]
  cases lexLoop tb f cs ln harm <;> rfl

theorem lex_loopEnd (tb : Int) (f : Nat) (cs : List Nat) (ln : Int) (harm : Bool) :
    lexLoop tb (f + 1) (93 :: cs) ln harm = pre (tok .loopEnd 0 []) (lexLoop tb f cs ln harm) := by
  rw [lexLoop]
  simp only [zen_ascii 93 (by decide)]
  simp (config := { decide := true }) only [if_false, if_true]
  cases lexLoop tb f cs ln harm <;> rfl


/-! ## the canonical printer and the program theorem -/
open Sakura.Core (Cmd)

def letterOf (semi : Int) : Nat :=
  if semi = 0 then 99 else if semi = 2 then 100 else if semi = 4 then 101 else if semi = 5 then 102
  else if semi = 7 then 103 else if semi = 9 then 97 else 98

mutual
/-- the text of a command followed by the text `R` (one blank closes every command) -/
def printK : Cmd → List Nat → List Nat
  | .note semi acc nat len q v t o, R => letterOf semi :: (accText acc nat ++ (Ex2.lenText len ++ slots q v t o R))
  | .rest len dir, R => 114 :: (restSign dir ++ (Ex2.lenText len ++ 32 :: R))
  | .setL len, R => 108 :: (Ex2.lenText len ++ 32 :: R)
  | .setO n, R => 111 :: (printInt n ++ 32 :: R)
  | .octRel d, R => (if d = 1 then 62 else 60) :: 32 :: R
  | .setV n, R => 118 :: (printInt n ++ 32 :: R)
  | .velRel d, R => (if d = 1 then 41 else 40) :: 32 :: R
  | .setQ n, R => 113 :: (printInt n ++ 32 :: R)
  | .setT n, R => 116 :: (printInt n ++ 32 :: R)
  | .loop n b hb k, R =>
    91 :: (decDigits n ++ 32 :: printKL b (if hb then 58 :: 32 :: printKL k (93 :: 32 :: R) else 93 :: 32 :: R))
  | _, R => R
def printKL : List Cmd → List Nat → List Nat
  | [], R => R
  | c :: cs, R => printK c (printKL cs R)
end

-- the fragment the printer covers, with the side conditions of the readers
mutual
def pwf : Cmd → Prop
  | .note semi _ _ len _ _ _ _ => (semi = 0 ∨ semi = 2 ∨ semi = 4 ∨ semi = 5 ∨ semi = 7 ∨ semi = 9 ∨ semi = 11) ∧ Ex2.lenOK len ∧ LenHeadOK len
  | .rest len dir => (dir = 1 ∨ dir = -1) ∧ Ex2.lenOK len ∧ LenHeadOK len
  | .setL len => Ex2.lenOK len ∧ (∀ c r, Ex2.lenText len = c :: r → c ≠ 46)
  | .setO _ | .setV _ | .setQ _ | .setT _ => True
  | .octRel d => d = 1 ∨ d = -1
  | .velRel d => d = 1 ∨ d = -1
  | .loop _ b hb k => pwfL b ∧ pwfL k ∧ (hb = true ∨ k = [])
  | _ => False
def pwfL : List Cmd → Prop
  | [] => True
  | c :: cs => pwf c ∧ pwfL cs
end

-- iterations of the main loop a printed command uses
mutual
def cost : Cmd → Nat
  | .note _ _ _ _ _ _ _ o => if o.isSome then 2 else 1
  | .rest .. => 1
  | .setL _ => 1
  | .loop _ b hb k => 2 + costL b + (if hb then 2 + costL k else 0) + 2
  | _ => 2
def costL : List Cmd → Nat
  | [] => 0
  | c :: cs => cost c + costL cs
end


theorem start_of (c : Nat) (h : c = 99 ∨ c = 100 ∨ c = 101 ∨ c = 102 ∨ c = 103 ∨ c = 97 ∨ c = 98 ∨ c = 114 ∨ c = 108 ∨ c = 111 ∨ c = 118 ∨
    c = 113 ∨ c = 116 ∨ c = 62 ∨ c = 60 ∨ c = 41 ∨ c = 40 ∨ c = 91 ∨ c = 58 ∨ c = 93) : Start c := by
  unfold Start
  rcases h with h | h | h | h | h | h | h | h | h | h | h | h | h | h | h | h | h | h | h | h <;> (subst h; decide)

theorem letterOf_cases (semi : Int) : letterOf semi = 99 ∨ letterOf semi = 100 ∨ letterOf semi = 101 ∨ letterOf semi = 102 ∨
    letterOf semi = 103 ∨ letterOf semi = 97 ∨ letterOf semi = 98 := by
  unfold letterOf
  split; · simp
  split; · simp
  split; · simp
  split; · simp
  split; · simp
  split <;> simp

theorem semiOf_letterOf (semi : Int) (h : semi = 0 ∨ semi = 2 ∨ semi = 4 ∨ semi = 5 ∨ semi = 7 ∨ semi = 9 ∨ semi = 11) :
    semiOf (letterOf semi) = semi := by
  rcases h with h | h | h | h | h | h | h <;> (subst h; decide)

mutual
theorem printK_next (c : Cmd) (hw : pwf c) (R : List Nat) (hR : Next R) : Next (printK c R) := by
  cases c
  case note semi acc nat len q v t o =>
    refine Or.inr ⟨letterOf semi, _, rfl, start_of _ ?_⟩
    rcases letterOf_cases semi with h | h | h | h | h | h | h <;> simp [h]
  case rest len dir => exact Or.inr ⟨114, _, rfl, start_of _ (by simp)⟩
  case setL len => exact Or.inr ⟨108, _, rfl, start_of _ (by simp)⟩
  case setO n => exact Or.inr ⟨111, _, rfl, start_of _ (by simp)⟩
  case octRel d =>
    simp only [printK]
    split
    · exact Or.inr ⟨62, _, rfl, start_of _ (by simp)⟩
    · exact Or.inr ⟨60, _, rfl, start_of _ (by simp)⟩
  case setV n => exact Or.inr ⟨118, _, rfl, start_of _ (by simp)⟩
  case velRel d =>
    simp only [printK]
    split
    · exact Or.inr ⟨41, _, rfl, start_of _ (by simp)⟩
    · exact Or.inr ⟨40, _, rfl, start_of _ (by simp)⟩
  case setQ n => exact Or.inr ⟨113, _, rfl, start_of _ (by simp)⟩
  case setT n => exact Or.inr ⟨116, _, rfl, start_of _ (by simp)⟩
  case loop n b hb k => exact Or.inr ⟨91, _, rfl, start_of _ (by simp)⟩
  all_goals exact absurd hw (by simp [pwf])
theorem printKL_next (cs : List Cmd) (hw : pwfL cs) (R : List Nat) (hR : Next R) : Next (printKL cs R) := by
  cases cs with
  | nil => exact hR
  | cons c cs =>
    simp only [pwfL] at hw
    exact printK_next c hw.1 _ (printKL_next cs hw.2 R hR)
end


theorem rawL_leaf (a : Tok) : Ex2.rawL [Loop.Tree.leaf a] = [a] := by simp [Ex2.rawL, Ex2.rawT]

theorem next_blank_cons (R : List Nat) : Next R → NumEnd (32 :: R) := fun _ => numEnd_blank R

theorem rawL_append (a b : List (Loop.Tree Tok)) : Ex2.rawL (a ++ b) = Ex2.rawL a ++ Ex2.rawL b := by
  induction a with
  | nil => simp [Ex2.rawL]
  | cons t ts ih => simp [Ex2.rawL, ih]

theorem next_loopEnd (R : List Nat) : Next (93 :: 32 :: R) := Or.inr ⟨93, _, rfl, start_of _ (by simp)⟩
theorem next_loopBreak (R : List Nat) : Next (58 :: 32 :: R) := Or.inr ⟨58, _, rfl, start_of _ (by simp)⟩

/-- `] ` : two iterations -/
theorem loopEnd_step (tb : Int) (f : Nat) (R : List Nat) (ln : Int) (harm : Bool) :
    lexLoop tb (f + 1 + 1) (93 :: 32 :: R) ln harm = pre (tok .loopEnd 0 []) (lexLoop tb f R ln harm) := by
  rw [lex_loopEnd, lex_blank]

/-- `: ` : two iterations -/
theorem loopBreak_step (tb : Int) (f : Nat) (R : List Nat) (ln : Int) (harm : Bool) :
    lexLoop tb (f + 1 + 1) (58 :: 32 :: R) ln harm = pre (tok .loopBreak 0 []) (lexLoop tb f R ln harm) := by
  rw [lex_loopBreak, lex_blank]

/-- a value setter `<letter><int><blank>`: two iterations -/
theorem setter_step (tb : Int) (f : Nat) (R : List Nat) (ln : Int) (harm : Bool) (t : Tok) (text : List Nat)
    (h : lexLoop tb (f + 1 + 1) text ln harm = pre t (lexLoop tb (f + 1) (32 :: R) ln harm)) :
    lexLoop tb (2 + f) text ln harm = preL [t] (lexLoop tb f R ln harm) := by
  have : 2 + f = f + 1 + 1 := by omega
  rw [this, h, lex_blank, preL_cons, preL_nil]

mutual
theorem lex_printK (tb : Int) (c : Cmd) (hw : pwf c) : ∀ (f : Nat) (R : List Nat) (ln : Int) (harm : Bool), Next R →
    lexLoop tb (cost c + f) (printK c R) ln harm = preL (Ex2.rawL (Ex2.toTrees c)) (lexLoop tb f R ln harm) := by
  intro f R ln harm hR
  cases c
  case note semi acc nat len q v t o =>
    simp only [pwf] at hw
    obtain ⟨hs, hl, hh⟩ := hw
    simp only [printK, cost, Ex2.toTrees, rawL_leaf]
    cases o with
    | none =>
      simp only [Option.isSome, Bool.false_eq_true, if_false]
      rw [show 1 + f = f + 1 by omega, lex_noteLetter tb f _ (letterOf_cases semi), readNote_print _ acc nat len q v t none R ln hl hh hR]
      simp only [afterNote, semiOf_letterOf semi hs, preL_cons, preL_nil]
    | some x =>
      simp only [Option.isSome, if_true]
      rw [show 2 + f = (f + 1) + 1 by omega, lex_noteLetter tb (f + 1) _ (letterOf_cases semi),
        readNote_print _ acc nat len q v t (some x) R ln hl hh hR]
      simp only [afterNote, semiOf_letterOf semi hs, preL_cons, preL_nil, lex_blank]
  case rest len dir =>
    simp only [pwf] at hw
    obtain ⟨hd, hl, hh⟩ := hw
    simp only [printK, cost, Ex2.toTrees, rawL_leaf]
    rw [show 1 + f = f + 1 by omega, lex_rest, readRest_print dir hd len R ln hl hh hR]
    simp only [preL_cons, preL_nil]
  case setL len =>
    simp only [pwf] at hw
    simp only [printK, cost, Ex2.toTrees, rawL_leaf]
    rw [show 1 + f = f + 1 by omega, lex_length tb f _ ln harm _ (readLength_print len R ln hw.1 hw.2 hR)]
    simp only [preL_cons, preL_nil]
  case setO n =>
    simp only [printK, cost, Ex2.toTrees, rawL_leaf]
    exact setter_step tb f R ln harm _ _ (lex_octave tb (f + 1) _ ln harm _ (readOctave_print tb n (32 :: R) ln (numEnd_blank R)))
  case setV n =>
    simp only [printK, cost, Ex2.toTrees, rawL_leaf]
    exact setter_step tb f R ln harm _ _ (lex_velocity tb (f + 1) _ ln harm _ (readVelocity_print tb n (32 :: R) ln (numEnd_blank R)))
  case setQ n =>
    simp only [printK, cost, Ex2.toTrees, rawL_leaf]
    exact setter_step tb f R ln harm _ _ (lex_qlen tb (f + 1) _ ln harm _ (readQlen_print tb n (32 :: R) ln (numEnd_blank R)))
  case setT n =>
    simp only [printK, cost, Ex2.toTrees, rawL_leaf]
    exact setter_step tb f R ln harm _ _ (lex_timing tb (f + 1) _ ln harm _ (readTiming_print tb n (32 :: R) ln (numEnd_blank R)))
  case octRel d =>
    simp only [pwf] at hw
    simp only [printK, cost, Ex2.toTrees, rawL_leaf]
    rcases hw with rfl | rfl
    · simp only [if_true]
      exact setter_step tb f R ln harm _ _ (lex_octUp tb (f + 1) _ ln harm)
    · simp only [show ¬ ((-1 : Int) = 1) by decide, if_false]
      exact setter_step tb f R ln harm _ _ (lex_octDown tb (f + 1) _ ln harm)
  case velRel d =>
    simp only [pwf] at hw
    simp only [printK, cost, Ex2.toTrees, rawL_leaf]
    rcases hw with rfl | rfl
    · simp only [if_true]
      exact setter_step tb f R ln harm _ _ (lex_velUp tb (f + 1) _ ln harm)
    · simp only [show ¬ ((-1 : Int) = 1) by decide, if_false]
      exact setter_step tb f R ln harm _ _ (lex_velDown tb (f + 1) _ ln harm)
  case loop n b hb k =>
    simp only [pwf] at hw
    obtain ⟨hwb, hwk, hbk⟩ := hw
    simp only [printK, cost, Ex2.toTrees]
    have hraw : Ex2.rawL [Loop.Tree.loop n (Ex2.toTreesL b) hb (Ex2.toTreesL k)] =
        tok .loopBegin 0 [.int n] :: (Ex2.rawL (Ex2.toTreesL b) ++ ((if hb then [tok .loopBreak 0 []] ++ Ex2.rawL (Ex2.toTreesL k) else []) ++ [tok .loopEnd 0 []])) := by
      simp [Ex2.rawL, Ex2.rawT]
    rw [hraw]
    cases hb with
    | true =>
      simp only [if_true]
      have hY : Next (93 :: 32 :: R) := next_loopEnd R
      have hX : Next (58 :: 32 :: printKL k (93 :: 32 :: R)) := next_loopBreak _
      rw [show 2 + costL b + (2 + costL k) + 2 + f = (costL b + ((costL k + (f + 1 + 1)) + 1 + 1)) + 1 + 1 by omega,
        lex_loopBegin, readLoop_print tb n _ ln (numEnd_blank _)]
      simp only []
      rw [lex_blank, lex_printKL tb b hwb _ _ ln harm hX, loopBreak_step, lex_printKL tb k hwk _ _ ln harm hY, loopEnd_step]
      simp only [preL_cons, preL_append, preL_nil, List.cons_append, List.nil_append]
    | false =>
      have hk : k = [] := by
        rcases hbk with h | h
        · cases h
        · exact h
      subst hk
      simp only [Bool.false_eq_true, if_false, List.nil_append]
      have hY : Next (93 :: 32 :: R) := next_loopEnd R
      rw [show 2 + costL b + 0 + 2 + f = (costL b + (f + 1 + 1)) + 1 + 1 by omega,
        lex_loopBegin, readLoop_print tb n _ ln (numEnd_blank _)]
      simp only []
      rw [lex_blank, lex_printKL tb b hwb _ _ ln harm hY, loopEnd_step]
      simp only [preL_cons, preL_append, preL_nil, List.cons_append, List.nil_append]
  all_goals exact absurd hw (by simp [pwf])
theorem lex_printKL (tb : Int) (cs : List Cmd) (hw : pwfL cs) : ∀ (f : Nat) (R : List Nat) (ln : Int) (harm : Bool), Next R →
    lexLoop tb (costL cs + f) (printKL cs R) ln harm = preL (Ex2.rawL (Ex2.toTreesL cs)) (lexLoop tb f R ln harm) := by
  intro f R ln harm hR
  cases cs with
  | nil => simp [costL, printKL, Ex2.toTreesL, Ex2.rawL, preL_nil]
  | cons c cs =>
    simp only [pwfL] at hw
    simp only [costL, printKL, Ex2.toTreesL]
    rw [show cost c + costL cs + f = cost c + (costL cs + f) by omega,
      lex_printK tb c hw.1 (costL cs + f) _ ln harm (printKL_next cs hw.2 R hR), lex_printKL tb cs hw.2 f R ln harm hR,
      rawL_append, preL_append]
end


theorem slots_length (q v t o : Option Int) (R : List Nat) : 5 + R.length ≤ (slots q v t o R).length := by
  simp only [slots, List.length_cons, List.length_append]; omega

mutual
theorem cost_le (c : Cmd) (hw : pwf c) (R : List Nat) : cost c + R.length ≤ (printK c R).length := by
  cases c
  case note semi acc nat len q v t o =>
    have := slots_length q v t o R
    simp only [printK, cost, List.length_cons, List.length_append]
    split <;> omega
  case rest len dir => simp only [printK, cost, List.length_cons, List.length_append]; omega
  case setL len => simp only [printK, cost, List.length_cons, List.length_append]; omega
  case setO n => simp only [printK, cost, List.length_cons, List.length_append]; omega
  case setV n => simp only [printK, cost, List.length_cons, List.length_append]; omega
  case setQ n => simp only [printK, cost, List.length_cons, List.length_append]; omega
  case setT n => simp only [printK, cost, List.length_cons, List.length_append]; omega
  case octRel d => simp only [printK, cost, List.length_cons]; omega
  case velRel d => simp only [printK, cost, List.length_cons]; omega
  case loop n b hb k =>
    simp only [pwf] at hw
    obtain ⟨hwb, hwk, _⟩ := hw
    simp only [printK, cost, List.length_cons, List.length_append]
    cases hb with
    | true =>
      have h1 := costL_le k hwk (93 :: 32 :: R)
      have h2 := costL_le b hwb (58 :: 32 :: printKL k (93 :: 32 :: R))
      simp only [List.length_cons, if_true] at h1 h2 ⊢
      omega
    | false =>
      have h2 := costL_le b hwb (93 :: 32 :: R)
      simp only [List.length_cons, Bool.false_eq_true, if_false] at h2 ⊢
      omega
  all_goals exact absurd hw (by simp [pwf])
theorem costL_le (cs : List Cmd) (hw : pwfL cs) (R : List Nat) : costL cs + R.length ≤ (printKL cs R).length := by
  cases cs with
  | nil => simp [costL, printKL]
  | cons c cs =>
    simp only [pwfL] at hw
    have h1 := costL_le cs hw.2 R
    have h2 := cost_le c hw.1 (printKL cs R)
    simp only [costL, printKL]
    omega
end

/-- **print → lex**: the model lexer reads the canonical text of a program back as exactly the compiled token list (the one
    `exec_refines_sem` is about), with no error — for every program of the fragment (notes with all parameters, rests, `l o v q t`,
    `< > ( )`, loops with `:` nested to any depth). -/
theorem lex_print (cs : List Cmd) (hw : pwfL cs) : Lx.lex 96 (printKL cs []) 0 = some ⟨Ex2.compileL cs, []⟩ := by
  have hle := costL_le cs hw []
  simp only [List.length_nil, Nat.add_zero] at hle
  unfold Lx.lex
  obtain ⟨f, hf⟩ : ∃ f, (printKL cs []).length + 1 = costL cs + (f + 1) := ⟨(printKL cs []).length - costL cs, by omega⟩
  rw [hf, lex_printKL 96 cs hw (f + 1) [] 0 false (Or.inl rfl)]
  simp [lexLoop, preL, Ex2.compileL, Ex2.lineTok]

#print axioms lex_print
end Sakura.Lp
