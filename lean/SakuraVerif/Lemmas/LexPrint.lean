import SakuraVerif.Model.Lexer
import SakuraVerif.Lemmas.ExecRefine
/-! # print → lex: the model lexer reads the printed program back as the compiled token list

`printL` writes a program of the core note language in a canonical layout (no blank inside a command, one blank after it);
the theorems show, reader by reader and then for whole programs, that `Lx.lexLoop` on the printed text yields exactly the
tokens `Ex2.rawL (Ex2.toTreesL cs)` that `exec_refines_sem` is about. -/
namespace Sakura.Lp
open Sakura Sakura.Lx

/-! ## decimal numbers -/

/-- decimal digits of a natural number, most significant first -/
def decDigits (n : Nat) : List Nat :=
  if h : n < 10 then [48 + n] else decDigits (n / 10) ++ [48 + n % 10]
decreasing_by omega

theorem decDigits_digit (n : Nat) : ∀ c ∈ decDigits n, isDigit c = true := by
  induction n using Nat.strongRecOn with
  | _ n ih =>
    intro c hc
    rw [decDigits] at hc
    split at hc
    · simp at hc; subst hc; simp [isDigit]; omega
    · rcases List.mem_append.mp hc with h1 | h1
      · exact ih (n / 10) (by omega) c h1
      · simp at h1; subst h1; simp [isDigit]; omega

theorem decDigits_ne_nil (n : Nat) : decDigits n ≠ [] := by
  rw [decDigits]; split <;> simp

theorem accDec_append_digits (ds : List Nat) (hd : ∀ c ∈ ds, isDigit c = true) (acc : Int) (r : List Nat) :
    accDec acc (ds ++ r) = accDec (ds.foldl (fun (a : Int) (c : Nat) => a * 10 + ((c : Int) - 48)) acc) r := by
  induction ds generalizing acc with
  | nil => rfl
  | cons d ds ih =>
    have h1 : isDigit d = true := hd d List.mem_cons_self
    simp only [List.cons_append, accDec, h1, if_true, List.foldl_cons]
    exact ih (fun c hc => hd c (List.mem_cons_of_mem _ hc)) _

theorem foldl_decDigits (n : Nat) (acc : Int) :
    (decDigits n).foldl (fun (a : Int) (c : Nat) => a * 10 + ((c : Int) - 48)) acc = acc * 10 ^ (decDigits n).length + n := by
  induction n using Nat.strongRecOn generalizing acc with
  | _ n ih =>
    rw [decDigits]
    split
    · simp; omega
    · rename_i h
      rw [List.foldl_append, ih (n / 10) (by omega)]
      simp only [List.foldl_cons, List.foldl_nil, List.length_append, List.length_cons, List.length_nil]
      have : (n : Int) = (n / 10 : Nat) * 10 + (n % 10 : Nat) := by omega
      rw [Int.pow_succ, ← Int.mul_assoc, Int.add_mul]
      generalize acc * (10 : Int) ^ (decDigits (n / 10)).length = X
      omega


def printInt (i : Int) : List Nat := if i < 0 then 45 :: decDigits i.natAbs else decDigits i.toNat

/-- what may follow a number: not a digit (the number ends there) and not `x`/`o` (which after a lone `0` would start a radix prefix) -/
def NumEnd (r : List Nat) : Prop := ∀ c r', r = c :: r' → isDigit c = false ∧ c ≠ 120 ∧ c ≠ 111

theorem accDec_nonDigit (acc : Int) (r : List Nat) (h : NumEnd r) : accDec acc r = (acc, r) := by
  cases r with
  | nil => rfl
  | cons c r' => simp [accDec, (h c r' rfl).1]

theorem accDec_decDigits (n : Nat) (r : List Nat) (h : NumEnd r) : accDec 0 (decDigits n ++ r) = ((n : Int), r) := by
  rw [accDec_append_digits _ (decDigits_digit n), foldl_decDigits, accDec_nonDigit _ _ h]
  simp

theorem digit_facts (c : Nat) (h : isDigit c = true) : c ≠ 45 ∧ c ≠ 36 ∧ c ≠ 120 ∧ c ≠ 111 ∧ 48 ≤ c ∧ c ≤ 57 := by
  simp [isDigit] at h; omega

/-- the body of `get_int` after the sign, on printed digits -/
theorem getIntBody_decDigits (d sgn : Int) (n : Nat) (r : List Nat) (h : NumEnd r) :
    getIntBody d (sgn, decDigits n ++ r) = ((n : Int) * sgn, r) := by
  have hne := decDigits_ne_nil n
  have hall := decDigits_digit n
  have hacc := accDec_decDigits n r h
  cases hd : decDigits n with
  | nil => exact absurd hd hne
  | cons d0 ds =>
    rw [hd] at hall hacc
    have f0 := digit_facts d0 (hall d0 List.mem_cons_self)
    have hsecond : ∀ c, (ds ++ r).head? = some c → c ≠ 120 ∧ c ≠ 111 := by
      intro c hc
      cases ds with
      | nil =>
        cases r with
        | nil => simp at hc
        | cons c' r' => simp at hc; subst hc; exact ⟨(h c' r' rfl).2.1, (h c' r' rfl).2.2⟩
      | cons d1 ds' =>
        simp at hc; subst hc
        have f1 := digit_facts d1 (hall d1 (by simp))
        exact ⟨f1.2.2.1, f1.2.2.2.1⟩
    simp only [List.cons_append] at hacc ⊢
    unfold getIntBody
    have h1 : ¬ (startsWith [48, 120] (d0 :: (ds ++ r)) = true) := by
      simp only [startsWith, List.isPrefixOf]
      cases hx : ds ++ r with
      | nil => simp
      | cons c rest =>
        have := hsecond c (by simp [hx])
        simp; intro _; exact fun e => this.1 e.symm
    have h2 : ¬ (startsWith [48, 111] (d0 :: (ds ++ r)) = true) := by
      simp only [startsWith, List.isPrefixOf]
      cases hx : ds ++ r with
      | nil => simp
      | cons c rest =>
        have := hsecond c (by simp [hx])
        simp; intro _; exact fun e => this.2 e.symm
    have h3 : ¬ (peek (d0 :: (ds ++ r)) = 36 ∧ d0 :: (ds ++ r) ≠ []) := by simp [peek, f0.2.1]
    have h4 : isDigit (peek (d0 :: (ds ++ r))) = true ∧ d0 :: (ds ++ r) ≠ [] := by
      simp [peek, hall d0 List.mem_cons_self]
    simp only [h1, h2, h3, h4, or_self, if_false, if_true, and_self, hacc]
    simp

theorem stripMinus_digit (c : Nat) (x : List Nat) (h : isDigit c = true) : stripMinus (c :: x) = (1, c :: x) := by
  have := (digit_facts c h).1
  unfold stripMinus
  split
  · rename_i heq; simp at heq; exact absurd heq.1 this
  · rfl

/-- `get_int` on a printed natural number -/
theorem getInt_decDigits (d : Int) (n : Nat) (r : List Nat) (h : NumEnd r) : getInt d (decDigits n ++ r) = ((n : Int), r) := by
  unfold getInt
  cases hd : decDigits n with
  | nil => exact absurd hd (decDigits_ne_nil n)
  | cons d0 ds =>
    have h0 : isDigit d0 = true := decDigits_digit n d0 (by rw [hd]; exact List.mem_cons_self)
    rw [List.cons_append, stripMinus_digit d0 _ h0, ← List.cons_append, ← hd, getIntBody_decDigits d 1 n r h]
    simp

/-- `get_int` on a printed integer -/
theorem getInt_printInt (d i : Int) (r : List Nat) (h : NumEnd r) : getInt d (printInt i ++ r) = (i, r) := by
  unfold printInt
  split
  · rename_i hneg
    unfold getInt
    simp only [List.cons_append, stripMinus]
    rw [getIntBody_decDigits d (-1) i.natAbs r h]
    congr 1
    omega
  · rename_i hpos
    rw [getInt_decDigits d i.toNat r h]
    congr 1
    omega


/-! ## length texts -/

theorem getNoteLength_lenchars (L : List Nat) (hL : ∀ c ∈ L, isLenChar c = true) (f : Nat) (R : List Nat) (ln : Int) :
    getNoteLength (L.length + f) (L ++ R) ln = (L ++ (getNoteLength f R ln).1, (getNoteLength f R ln).2) := by
  induction L with
  | nil => simp
  | cons c cs ih =>
    have hc : isLenChar c = true := hL c List.mem_cons_self
    have : (c :: cs).length + f = (cs.length + f) + 1 := by simp; omega
    rw [this, List.cons_append, getNoteLength]
    simp only [hc, if_true]
    rw [ih (fun x hx => hL x (List.mem_cons_of_mem _ hx))]
    rfl

/-- a character at which a length expression ends and that the scan does not skip -/
def Stop (c : Nat) : Prop := isLenChar c = false ∧ c ≠ 32 ∧ c ≠ 124 ∧ c ≠ 9 ∧ c ≠ 10

theorem getNoteLength_stop (f : Nat) (c : Nat) (r : List Nat) (ln : Int) (h : Stop c) :
    getNoteLength (f + 1) (c :: r) ln = ([], ⟨c :: r, ln⟩) := by
  obtain ⟨h1, h2, h3, h4, h5⟩ := h
  rw [getNoteLength]
  simp [h1, h2, h3, h4, h5]

/-- the text of a length followed directly by a stopping character (e.g. the `,` of a note's arguments) -/
theorem noteLength_then_stop (L : List Nat) (hL : ∀ c ∈ L, isLenChar c = true) (c : Nat) (r : List Nat) (ln : Int) (h : Stop c) :
    (Cur.mk (L ++ c :: r) ln).noteLength = (L, ⟨c :: r, ln⟩) := by
  unfold Cur.noteLength
  have : (L ++ c :: r).length + 1 = L.length + (r.length + 1 + 1) := by simp; omega
  simp only [this]
  rw [getNoteLength_lenchars L hL, getNoteLength_stop _ c r ln h]
  simp

/-- the text of a length followed by one blank and then a stopping character or the end of the text: the blank is consumed -/
theorem noteLength_then_blank (L : List Nat) (hL : ∀ c ∈ L, isLenChar c = true) (r : List Nat) (ln : Int)
    (h : r = [] ∨ ∃ c r', r = c :: r' ∧ Stop c) :
    (Cur.mk (L ++ 32 :: r) ln).noteLength = (L, ⟨r, ln⟩) := by
  unfold Cur.noteLength
  have : (L ++ 32 :: r).length + 1 = L.length + (r.length + 1 + 1) := by simp; omega
  simp only [this]
  rw [getNoteLength_lenchars L hL]
  have hsp : getNoteLength (r.length + 1 + 1) (32 :: r) ln = getNoteLength (r.length + 1) r ln := by
    rw [getNoteLength]; simp [isLenChar, isDigit]
  rw [hsp]
  rcases h with rfl | ⟨c, r', rfl, hc⟩
  · simp [getNoteLength]
  · rw [getNoteLength_stop _ c r' ln hc]; simp


theorem render_lenchars (p : Len.PartSyn) (hd : ∀ c ∈ p.digs, Len.isDigit c = true) : ∀ c ∈ Len.render p, isLenChar c = true := by
  intro c hc
  simp only [Len.render, List.mem_append, List.mem_replicate] at hc
  rcases hc with h | h | h | h
  · split at h <;> simp at h; subst h; decide
  · split at h <;> simp at h; subst h; decide
  · have := hd c h
    simp only [Len.isDigit] at this
    simp [isLenChar, isDigit, this]
  · rw [h.2]; decide

theorem segs_lenchars (ps : List (Nat × Len.PartSyn)) (hsep : ∀ sp ∈ ps, sp.1 = 94 ∨ sp.1 = 43) (hw : ∀ sp ∈ ps, sp.2.wf) :
    ∀ c ∈ Len.segs ps, isLenChar c = true := by
  induction ps with
  | nil => intro c hc; simp [Len.segs] at hc
  | cons sp rest ih =>
    obtain ⟨sep, p⟩ := sp
    intro c hc
    simp only [Len.segs, List.mem_cons, List.mem_append] at hc
    rcases hc with h | h | h
    · rcases hsep (sep, p) List.mem_cons_self with h1 | h1 <;> (simp at h1; subst h; rw [h1]; decide)
    · exact render_lenchars p (hw (sep, p) List.mem_cons_self).1 c h
    · exact ih (fun x hx => hsep x (List.mem_cons_of_mem _ hx)) (fun x hx => hw x (List.mem_cons_of_mem _ hx)) c h

theorem lenText_lenchars (len : Option Core.LenExpr) (h : Ex2.lenOK len) : ∀ c ∈ Ex2.lenText len, isLenChar c = true := by
  cases len with
  | none => intro c hc; simp [Ex2.lenText] at hc
  | some L =>
    obtain ⟨hd, _, hsep, hw, _⟩ := h
    intro c hc
    simp only [Ex2.lenText, List.mem_append] at hc
    rcases hc with h1 | h1
    · exact render_lenchars L.head hd c h1
    · exact segs_lenchars L.parts hsep hw c h1


/-! ## blanks, accidentals, optional integers -/

theorem skipSpace_nonblank (c : Nat) (r : List Nat) (ln : Int) (h : c ≠ 32 ∧ c ≠ 9 ∧ c ≠ 47) :
    (Cur.mk (c :: r) ln).skipSpace = ⟨c :: r, ln⟩ := by
  unfold Cur.skipSpace
  simp only [List.length_cons]
  rw [Lx.skipSpace]
  simp [h.1, h.2.1, h.2.2]

theorem skipSpace_nil (ln : Int) : (Cur.mk [] ln).skipSpace = ⟨[], ln⟩ := by
  unfold Cur.skipSpace; simp [Lx.skipSpace]

theorem skipSpace_blank (c : Nat) (r : List Nat) (ln : Int) (h : c ≠ 32 ∧ c ≠ 9 ∧ c ≠ 47) :
    (Cur.mk (32 :: c :: r) ln).skipSpace = ⟨c :: r, ln⟩ := by
  unfold Cur.skipSpace
  simp only [List.length_cons]
  rw [Lx.skipSpace]
  simp only [true_or, if_true]
  rw [Lx.skipSpace]
  simp [h.1, h.2.1, h.2.2]

theorem skipSpace_blank_nil (ln : Int) : (Cur.mk [32] ln).skipSpace = ⟨[], ln⟩ := by
  unfold Cur.skipSpace
  simp [Lx.skipSpace]

/-- the accidentals of a note: `+`/`-` repeated, then `*` for a natural -/
def accText (acc : Int) (nat : Bool) : List Nat :=
  (if acc ≥ 0 then List.replicate acc.toNat 43 else List.replicate acc.natAbs 45) ++ (if nat then [42] else [])

theorem noteFlags_plus (k : Nat) (X : List Nat) (fl : Int) (n : Bool) :
    noteFlags (List.replicate k 43 ++ X) fl n = noteFlags X (fl + k) n := by
  induction k generalizing fl with
  | zero => simp
  | succ k ih =>
    simp only [List.replicate_succ, List.cons_append, noteFlags, true_or, if_true]
    rw [ih]; congr 1; push_cast; omega

theorem noteFlags_minus (k : Nat) (X : List Nat) (fl : Int) (n : Bool) :
    noteFlags (List.replicate k 45 ++ X) fl n = noteFlags X (fl - k) n := by
  induction k generalizing fl with
  | zero => simp
  | succ k ih =>
    simp only [List.replicate_succ, List.cons_append, noteFlags]
    simp only [show ¬ ((45:Nat) = 43 ∨ (45:Nat) = 35) by decide, if_false, if_true]
    rw [ih]; congr 1; push_cast; omega

/-- the text after the accidentals starts with none of `+ # - *` -/
def NoFlag (R : List Nat) : Prop := ∀ c r, R = c :: r → c ≠ 43 ∧ c ≠ 35 ∧ c ≠ 45 ∧ c ≠ 42

theorem noteFlags_stop (R : List Nat) (h : NoFlag R) (fl : Int) (n : Bool) : noteFlags R fl n = (fl, n, R) := by
  cases R with
  | nil => rfl
  | cons c r =>
    obtain ⟨h1, h2, h3, h4⟩ := h c r rfl
    simp [noteFlags, h1, h2, h3, h4]

theorem noteFlags_accText (acc : Int) (nat : Bool) (R : List Nat) (h : NoFlag R) :
    noteFlags (accText acc nat ++ R) 0 false = (acc, nat, R) := by
  unfold accText
  have hstar : ∀ fl, noteFlags ((if nat then [42] else []) ++ R) fl false = (fl, nat, R) := by
    intro fl
    cases nat with
    | false => simpa using noteFlags_stop R h fl false
    | true =>
      simp only [if_true, List.cons_append, List.nil_append, noteFlags]
      simp only [show ¬ ((42:Nat) = 43 ∨ (42:Nat) = 35) by decide, show ¬ ((42:Nat) = 45) by decide, if_false, if_true]
      exact noteFlags_stop R h fl true
  split
  · rename_i hp
    rw [List.append_assoc, noteFlags_plus, hstar]
    congr 1; omega
  · rename_i hn
    rw [List.append_assoc, noteFlags_minus, hstar]
    congr 1; omega

/-- an optional integer slot -/
def optText : Option Int → List Nat
  | none => []
  | some x => printInt x

/-- nothing number-like starts here -/
def NoNum (R : List Nat) : Prop := ∀ c r, R = c :: r → isDigit c = false ∧ c ≠ 45 ∧ c ≠ 36

theorem getInt_none (d : Int) (R : List Nat) (h : NoNum R) : getInt d R = (d, R) := by
  cases R with
  | nil => simp [getInt, stripMinus, getIntBody, startsWith, peek, isDigit]
  | cons c r =>
    obtain ⟨h1, h2, h3⟩ := h c r rfl
    have hne48 : c ≠ 48 := by intro e; subst e; simp [isDigit] at h1
    have hs : stripMinus (c :: r) = (1, c :: r) := by
      unfold stripMinus; split
      · rename_i heq; simp at heq; exact absurd heq.1 h2
      · rfl
    unfold getInt
    rw [hs]
    unfold getIntBody
    have a1 : ¬ (startsWith [48, 120] (c :: r) = true) := by simp [startsWith, List.isPrefixOf, Ne.symm hne48]
    have a2 : ¬ (startsWith [48, 111] (c :: r) = true) := by simp [startsWith, List.isPrefixOf, Ne.symm hne48]
    simp [a1, a2, peek, h1, h3]


/-- a character a printed command starts with: it ends a length, is no blank, starts no number, no comment, no `&` / `,` -/
def Start (c : Nat) : Prop :=
  isLenChar c = false ∧ c ≠ 32 ∧ c ≠ 124 ∧ c ≠ 9 ∧ c ≠ 10 ∧ c ≠ 47 ∧ c ≠ 36 ∧ c ≠ 38 ∧ c ≠ 44 ∧ c ≠ 35 ∧ c ≠ 42 ∧ c ≠ 46 ∧ c ≠ 95

/-- the text after a printed command: the end of the text or the next command -/
def Next (R : List Nat) : Prop := R = [] ∨ ∃ c r, R = c :: r ∧ Start c

theorem Start.stop {c : Nat} (h : Start c) : Stop c := ⟨h.1, h.2.1, h.2.2.1, h.2.2.2.1, h.2.2.2.2.1⟩
theorem Start.nonblank {c : Nat} (h : Start c) : c ≠ 32 ∧ c ≠ 9 ∧ c ≠ 47 := ⟨h.2.1, h.2.2.2.1, h.2.2.2.2.2.1⟩
theorem Start.notDigit {c : Nat} (h : Start c) : isDigit c = false := by
  have := h.1; simp only [isLenChar, Bool.or_eq_false_iff] at this; exact this.1.1.1.1.1
theorem Start.ne45 {c : Nat} (h : Start c) : c ≠ 45 := by
  have := h.1; simp only [isLenChar, Bool.or_eq_false_iff, decide_eq_false_iff_not] at this; exact this.1.2
theorem Start.ne43 {c : Nat} (h : Start c) : c ≠ 43 := by
  have := h.1; simp only [isLenChar, Bool.or_eq_false_iff, decide_eq_false_iff_not] at this; exact this.2

theorem Next.noNum {R : List Nat} (h : Next R) : NoNum R := by
  intro c r hr
  rcases h with rfl | ⟨c', r', rfl, hs⟩
  · cases hr
  · cases hr; exact ⟨hs.notDigit, hs.ne45, hs.2.2.2.2.2.2.1⟩

theorem numEnd_comma (r : List Nat) : NumEnd (44 :: r) := by
  intro c r' h; cases h; decide
theorem numEnd_blank (r : List Nat) : NumEnd (32 :: r) := by
  intro c r' h; cases h; decide

theorem printInt_head (x : Int) : ∃ c r, printInt x = c :: r ∧ (c = 45 ∨ isDigit c = true) := by
  unfold printInt
  split
  · exact ⟨45, _, rfl, Or.inl rfl⟩
  · cases hd : decDigits x.toNat with
    | nil => exact absurd hd (decDigits_ne_nil _)
    | cons d0 ds => exact ⟨d0, ds, rfl, Or.inr (decDigits_digit _ d0 (by rw [hd]; exact List.mem_cons_self))⟩

/-- a filled slot `,x` followed by text at which the number ends -/
theorem commaInt_some (d : Int) (sp : Bool) (x : Int) (R : List Nat) (ln : Int) (h : NumEnd R) :
    commaInt d sp ⟨44 :: (printInt x ++ R), ln⟩ = (x, ⟨R, ln⟩) := by
  obtain ⟨c, r, hp, hc⟩ := printInt_head x
  have hnb : c ≠ 32 ∧ c ≠ 9 ∧ c ≠ 47 ∧ c ≠ 43 := by
    rcases hc with rfl | hd
    · decide
    · have := digit_facts c hd; omega
  unfold commaInt
  simp only []
  rw [hp, List.cons_append, skipSpace_nonblank c _ ln ⟨hnb.1, hnb.2.1, hnb.2.2.1⟩]
  simp only [peek, List.headD_cons, hnb.2.2.2, false_and, and_false, if_false]
  rw [← List.cons_append, ← hp, getInt_printInt d x R h]

/-- an empty slot `,` followed by the next `,` -/
theorem commaInt_none_comma (d : Int) (sp : Bool) (r : List Nat) (ln : Int) :
    commaInt d sp ⟨44 :: 44 :: r, ln⟩ = (d, ⟨44 :: r, ln⟩) := by
  unfold commaInt
  simp only []
  rw [skipSpace_nonblank 44 r ln (by decide)]
  simp only [peek, List.headD_cons, show ¬ ((44:Nat) = 43) by decide, false_and, and_false, if_false]
  rw [getInt_none d (44 :: r) (by intro c r' h; cases h; decide)]

/-- an empty last slot `,` followed by the blank that ends the command: the blank is consumed -/
theorem commaInt_none_blank (d : Int) (R : List Nat) (ln : Int) (h : Next R) :
    commaInt d false ⟨44 :: 32 :: R, ln⟩ = (d, ⟨R, ln⟩) := by
  unfold commaInt
  simp only []
  rcases h with rfl | ⟨c, r, rfl, hs⟩
  · rw [skipSpace_blank_nil]; simp [getInt_none d [] (by intro c r h; cases h)]
  · rw [skipSpace_blank c r ln hs.nonblank]
    simp only [Bool.false_eq_true, false_and, if_false]
    rw [getInt_none d (c :: r) (Next.noNum (Or.inr ⟨c, r, rfl, hs⟩))]


/-! ## the note reader -/

def slots (q v t o : Option Int) (R : List Nat) : List Nat :=
  44 :: (optText q ++ 44 :: (optText v ++ 44 :: (optText t ++ 44 :: (optText o ++ 32 :: R))))

/-- where the cursor stands after the note: an empty last slot also consumes the blank that follows it -/
def afterNote (o : Option Int) (R : List Nat) : List Nat :=
  match o with
  | none => R
  | some _ => 32 :: R

/-- the length text of a lettered note must not start with a character that reads as an accidental -/
def LenHeadOK (len : Option Core.LenExpr) : Prop := ∀ c r, Ex2.lenText len = c :: r → c ≠ 43 ∧ c ≠ 35 ∧ c ≠ 45 ∧ c ≠ 42

theorem slur_none (R : List Nat) (ln : Int) (h : ∀ c r, R = c :: r → c ≠ 38) : slurSuffix ⟨R, ln⟩ = (.none, ⟨R, ln⟩) := by
  unfold slurSuffix
  cases R with
  | nil => rfl
  | cons c r =>
    have := h c r rfl
    simp only []
    split
    · rename_i heq; simp at heq; exact absurd heq.1 this
    · rfl

theorem commaInt_slot (d : Int) (sp : Bool) (x : Option Int) (r : List Nat) (ln : Int) :
    commaInt d sp ⟨44 :: (optText x ++ 44 :: r), ln⟩ = (x.getD d, ⟨44 :: r, ln⟩) := by
  cases x with
  | none => exact commaInt_none_comma d sp r ln
  | some v => exact commaInt_some d sp v (44 :: r) ln (numEnd_comma r)

theorem readNote_print (ch : Nat) (acc : Int) (nat : Bool) (len : Option Core.LenExpr) (q v t o : Option Int) (R : List Nat) (ln : Int)
    (hl : Ex2.lenOK len) (hh : LenHeadOK len) (hR : Next R) :
    readNote ch ⟨accText acc nat ++ (Ex2.lenText len ++ slots q v t o R), ln⟩ =
      (tok .note (semiOf ch) [.int acc, .int (if nat then 1 else 0), .str (Ex2.lenText len), Ex2.optInt 0 q, Ex2.optInt (-1) v,
        Ex2.optInt intMin t, Ex2.optInt (-1) o, .none], ⟨afterNote o R, ln⟩) := by
  have hnf : NoFlag (Ex2.lenText len ++ slots q v t o R) := by
    intro c r hr
    cases hlt : Ex2.lenText len with
    | nil => rw [hlt] at hr; simp [slots] at hr; rw [← hr.1]; decide
    | cons c' r' => rw [hlt] at hr; simp at hr; rw [← hr.1]; exact hh c' r' hlt
  have hstop44 : Stop 44 := by unfold Stop; decide
  unfold readNote
  simp only []
  rw [noteFlags_accText acc nat _ hnf]
  simp only []
  unfold slots
  rw [noteLength_then_stop _ (lenText_lenchars len hl) 44 _ ln hstop44]
  simp only []
  rw [skipSpace_nonblank 44 _ ln (by decide), commaInt_slot]
  simp only []
  rw [skipSpace_nonblank 44 _ ln (by decide), commaInt_slot]
  simp only []
  rw [skipSpace_nonblank 44 _ ln (by decide), commaInt_slot]
  simp only []
  have hamp : ∀ c r, R = c :: r → c ≠ 38 := by
    intro c r hr
    rcases hR with rfl | ⟨c', r', rfl, hs⟩
    · cases hr
    · cases hr; exact hs.2.2.2.2.2.2.2.1
  cases o with
  | none =>
    simp only [optText, List.nil_append]
    rw [commaInt_none_blank _ R ln hR]
    simp only [afterNote]
    rw [slur_none R ln hamp]
    cases q <;> cases v <;> cases t <;> rfl
  | some x =>
    simp only [optText]
    rw [commaInt_some _ _ x (32 :: R) ln (numEnd_blank R)]
    simp only [afterNote]
    rw [slur_none (32 :: R) ln (by intro c r h; cases h; decide)]
    cases q <;> cases v <;> cases t <;> rfl

end Sakura.Lp
