import SakuraVerif.Model.Smf
import SakuraVerif.Spec.Smf
namespace Sakura
open Sakura.Spec

theorem rd16_be16 (v : Nat) (h : v < 65536) (r : List Nat) : rd16 (be16 v ++ r) = some (v, r) := by
  have h1 : v / 256 % 256 < 256 := Nat.mod_lt _ (by decide)
  have h2 : v % 256 < 256 := Nat.mod_lt _ (by decide)
  simp only [be16, List.cons_append, List.nil_append, rd16, h1, h2, and_self, if_true]
  congr 2; omega

theorem rd32_be32 (v : Nat) (h : v < 4294967296) (r : List Nat) : rd32 (be32 v ++ r) = some (v, r) := by
  have h1 : v / 16777216 % 256 < 256 := Nat.mod_lt _ (by decide)
  have h2 : v / 65536 % 256 < 256 := Nat.mod_lt _ (by decide)
  have h3 : v / 256 % 256 < 256 := Nat.mod_lt _ (by decide)
  have h4 : v % 256 < 256 := Nat.mod_lt _ (by decide)
  simp only [be32, List.cons_append, List.nil_append, rd32, h1, h2, h3, h4, and_self, if_true]
  congr 2; omega

theorem parseChunks_gen (bodies : List (List Nat)) (hl : ∀ b ∈ bodies, b.length < 4294967296) :
    parseChunks bodies.length (bodies.map chunk).flatten = some bodies := by
  induction bodies with
  | nil => simp [parseChunks]
  | cons b bs ih =>
    have hb := hl b List.mem_cons_self
    have ih' := ih (fun x hx => hl x (List.mem_cons_of_mem _ hx))
    simp only [List.length_cons, List.map_cons, List.flatten_cons, chunk, MTrk, List.cons_append,
      List.nil_append, List.append_assoc, parseChunks]
    rw [rd32_be32 _ hb]
    simp [ih']

theorem parse_container (tb : Nat) (bodies : List (List Nat)) (htb : tb < 32768)
    (hn : bodies.length < 65536) (hl : ∀ b ∈ bodies, b.length < 4294967296) :
    parseSmf (container tb bodies) = some (⟨1, bodies.length, tb⟩, bodies) := by
  simp only [container, MThd, List.cons_append, List.nil_append, List.append_assoc, parseSmf]
  rw [rd32_be32 6 (by decide)]
  simp only []
  rw [rd16_be16 1 (by decide)]
  simp only []
  rw [rd16_be16 _ hn]
  simp only []
  rw [rd16_be16 _ (by omega)]
  simp only []
  rw [parseChunks_gen bodies hl]

theorem pushU16_nat (n : Nat) : pushU16 (n : Int) = be16 n := by
  unfold pushU16 be16
  have h1 : (((n:Int) / 256) % 256).toNat = n / 256 % 256 := by omega
  have h2 : ((n:Int) % 256).toNat = n % 256 := by omega
  rw [h1, h2]

theorem pushU32_nat (n : Nat) : pushU32 (n : Int) = be32 n := by
  unfold pushU32 be32
  have h1 : (((n:Int) / 16777216) % 256).toNat = n / 16777216 % 256 := by omega
  have h2 : (((n:Int) / 65536) % 256).toNat = n / 65536 % 256 := by omega
  have h3 : (((n:Int) / 256) % 256).toNat = n / 256 % 256 := by omega
  have h4 : ((n:Int) % 256).toNat = n % 256 := by omega
  rw [h1, h2, h3, h4]

theorem songBodies_length (pf : Int) (tracks : List (List Event)) :
    (songBodies pf tracks).length = tracks.length := by
  unfold songBodies; split <;> simp

theorem containerI_eq_container (tb : Nat) (bodies : List (List Nat)) :
    containerI (tb : Int) bodies = container tb bodies := by
  unfold containerI container
  have h6 : pushU32 6 = be32 6 := pushU32_nat 6
  have h1 : pushU16 1 = be16 1 := pushU16_nat 1
  have hc : (fun b : List Nat => MTrk ++ pushU32 (b.length : Int) ++ b) = chunk := by
    funext b; simp [chunk, pushU32_nat]
  rw [h6, h1, pushU16_nat, pushU16_nat, hc]

end Sakura
