import SakuraVerif.Model.ScriptExec
/-! # The runner's `CalcTree` arm computes the expression semantics of C10

`compileE` writes an expression tree of `Model.Expr` as the token tree the lexer builds for it (`CalcTree` with the operator
character as tag, `GetVariable` atoms, unary minus as `(-1) * e`).  `exec_calc_tree`: run by the literal script runner, the token
pushes exactly `Ex.evalTree ρ e` and changes nothing else — so every law proved about `evalTree` (precedence, left association,
division by zero, comparisons, string concatenation …) is a law of what `runner::exec` computes. -/
namespace Sakura.Sx
open Sakura.Ex (Val Expr evalOp evalTree)

/-- the operator character the lexer stores in the tag -/
def flagOf (id : Nat) : Int :=
  match id with
  | 0 => 42 | 1 => 47 | 2 => 37 | 3 => 43 | 4 => 45 | 5 => 61 | 6 => 0x2260 | 7 => 62 | 8 => 0x2267 | 9 => 60 | 10 => 0x2266 | 11 => 38
  | _ => 124

theorem calcOp_eval (id : Nat) (a b : Val) : calcOp (flagOf id) (some a) (some b) = some (some (evalOp id a b)) := by
  have hlt : ∀ (eq : Bool), vLt eq (some a) (some b) = Ex.valCmp true eq a b := by
    intro eq; cases a <;> simp [vLt, Ex.valCmp, V.toI, V.toS] <;> rfl
  have hgt : ∀ (eq : Bool), vGt eq (some a) (some b) = Ex.valGt eq a b := by
    intro eq; cases a <;> simp [vGt, Ex.valGt, V.toI, V.toS] <;> rfl
  have heq : vEq (some a) (some b) = Ex.valEq a b := by
    cases b <;> simp [vEq, Ex.valEq, V.toI, V.toS]
  match id with
  | 0 => simp [flagOf, calcOp, evalOp, V.toI]
  | 1 => by_cases h : b.toI = 0 <;> simp [flagOf, calcOp, evalOp, V.toI, h]
  | 2 => by_cases h : b.toI = 0 <;> simp [flagOf, calcOp, evalOp, V.toI, h]
  | 3 => by_cases h : (a.isStr = true ∨ b.isStr = true) <;> simp [flagOf, calcOp, evalOp, V.toI, V.toS, V.isStr, h]
  | 4 => simp [flagOf, calcOp, evalOp, V.toI]
  | 5 => simp [flagOf, calcOp, evalOp, heq]
  | 6 => simp [flagOf, calcOp, evalOp, heq]
  | 7 => simp [flagOf, calcOp, evalOp, hgt]
  | 8 => simp [flagOf, calcOp, evalOp, hgt]
  | 9 => simp [flagOf, calcOp, evalOp, hlt]
  | 10 => simp [flagOf, calcOp, evalOp, hlt]
  | 11 => simp [flagOf, calcOp, evalOp, V.toB, V.toI, Val.toB]
  | n + 12 => simp [flagOf, calcOp, evalOp, V.toB, V.toI, Val.toB]

/-- an expression tree as the token tree the lexer builds for it -/
def compileE : Expr → Tok
  | .atom a => .mk .getVariable 0 0 0 (some [a]) [] none
  | .neg e => .mk .calcTree 0 42 0 none [] (some [.mk .constInt (-1) 0 0 none [] none, compileE e])
  | .bin o a b => .mk .calcTree 0 (flagOf o.id) 0 none [] (some [compileE a, compileE b])

/-- fuel that suffices for an expression -/
def fuelE : Expr → Nat
  | .atom _ => 1
  | .neg e => fuelE e + 4
  | .bin _ a b => max (fuelE a) (fuelE b) + 4

theorem fuelE_pos (e : Expr) : 1 ≤ fuelE e := by cases e <;> simp [fuelE]

theorem pop_push (s : St) (v : V) : pop (push s v) = (some v, s) := by
  cases s; rfl

theorem flagOf_ne (id : Nat) : flagOf id ≠ 0 ∧ flagOf id ≠ 33 := by
  unfold flagOf; split <;> decide

section
variable (fns : List Fn)

/-- a token that pushes one value, run on its own by `exec` and popped: the value, and the state as before -/
theorem single_pushes (h : Nat) (t : Tok) (s : St) (v : V) (hb : s.brk = 0) (ht : execTok fns (h + 1) t s = push s v) :
    pop (execList fns (h + 2) [t] s) = (some v, s) := by
  rw [execList]
  simp only [hb, ne_eq, not_true_eq_false, if_false]
  rw [ht, execList, pop_push]

/-- `exec_args` on two tokens that each push one value -/
theorem args_two (h : Nat) (ta tb : Tok) (s : St) (va vb : V) (hb : s.brk = 0)
    (ha : execTok fns (h + 2) ta s = push s va) (hbb : execTok fns (h + 1) tb s = push s vb) :
    execArgs fns (h + 4) [ta, tb] s = ([va, vb], s) := by
  rw [execArgs, single_pushes fns (h + 1) ta s va hb ha, execArgs, single_pushes fns h tb s vb hb hbb, execArgs]
  simp [Option.join]

/-- **the runner computes the tree's value**: for every expression tree, any environment held by the scopes, and any sufficient fuel,
    running the compiled token pushes `evalTree ρ e` and leaves everything else as it was -/
theorem exec_calc_tree (ρ : Nat → Val) (e : Expr) : ∀ (f : Nat) (s : St), fuelE e ≤ f → s.brk = 0 →
    (∀ a, getVar s.scopes [a] = some (some (ρ a))) →
    execTok fns f (compileE e) s = push s (some (evalTree ρ e)) := by
  induction e with
  | atom a =>
    intro f s hf hb hρ
    obtain ⟨g, rfl⟩ : ∃ g, f = g + 1 := ⟨f - 1, by simp [fuelE] at hf; omega⟩
    rw [compileE, execTok]
    simp [Tok.ty, Tok.vs, hρ a, evalTree, Option.join]
  | neg e ih =>
    intro f s hf hb hρ
    have hp := fuelE_pos e
    obtain ⟨h, rfl⟩ : ∃ h, f = h + 5 := ⟨f - 5, by simp [fuelE] at hf; omega⟩
    have hc : execTok fns (h + 2) (.mk .constInt (-1) 0 0 none [] none) { s with needRet := true } = push { s with needRet := true } (some (.int (-1))) := by
      rw [execTok]; simp [Tok.ty, Tok.vi]
    have he := ih (h + 1) { s with needRet := true } (by simp [fuelE] at hf; omega) hb hρ
    rw [compileE, execTok]
    simp only [Tok.ty, Tok.tag, Tok.kids, Tok.ch, Option.getD_some, show ¬ ((42 : Int) = 0) by decide, show ¬ ((42 : Int) = 33) by decide, if_false]
    unfold argsWith
    simp only []
    rw [args_two fns h _ _ { s with needRet := true } _ _ hb hc he]
    have := calcOp_eval 0 (.int (-1)) (evalTree ρ e)
    simp only [flagOf] at this
    simp only [List.getD_cons_zero, List.getD_cons_succ, this, evalTree, evalOp]
    cases s; simp [push, Val.toI]
  | bin o a b iha ihb =>
    intro f s hf hb hρ
    have hpa := fuelE_pos a
    have hpb := fuelE_pos b
    obtain ⟨h, rfl⟩ : ∃ h, f = h + 5 := ⟨f - 5, by simp [fuelE] at hf; omega⟩
    have ha := iha (h + 2) { s with needRet := true } (by simp [fuelE] at hf; omega) hb hρ
    have hbb := ihb (h + 1) { s with needRet := true } (by simp [fuelE] at hf; omega) hb hρ
    obtain ⟨f0, f33⟩ := flagOf_ne o.id
    rw [compileE, execTok]
    simp only [Tok.ty, Tok.tag, Tok.kids, Tok.ch, Option.getD_some, f0, f33, if_false]
    unfold argsWith
    simp only []
    rw [args_two fns h _ _ { s with needRet := true } _ _ hb ha hbb]
    simp only [List.getD_cons_zero, List.getD_cons_succ, calcOp_eval, evalTree]

end
end Sakura.Sx
