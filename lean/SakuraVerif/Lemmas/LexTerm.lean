import SakuraVerif.Model.Lexer
/-! # The lexer model needs at most `length + 1` steps

Every reader of the literal lexer model returns a cursor whose text is no longer than the text it was given; every arm of the
main loop has consumed its command character before it continues, and the block of a `Sub{…}` or a tuplet is strictly shorter
than the text it was cut from.  So the fuel `src.length + 1` that `lex` passes always suffices: more fuel gives the same answer
(`lexLoop_fuel_stable`), and an answer `none` at that fuel means "outside the modelled subset", never "ran out of steps".
(The arm of `{` is where this failed before the repair e3063ef: a full-width brace was not seen to open the block, the block
contained itself, and no fuel sufficed.) -/
namespace Sakura.Lx
open Sakura.Sut (zen2han)

/-! ## readers do not lengthen the text -/

theorem getTokenS_len (sp : List Nat) : ∀ (s : List Nat) (ln : Int), (getTokenS sp s ln).2.s.length ≤ s.length
  | [], ln => by simp [getTokenS]
  | c :: cs, ln => by
    rw [getTokenS]
    split
    · simp only [List.length_drop, List.length_cons]; omega
    · have := getTokenS_len sp cs (if c = 10 then ln + 1 else ln)
      simp only [List.length_cons]; omega

theorem getTokenS_cons_len (a b c : Nat) (cs : List Nat) (ln : Int) : (getTokenS [a, b] (c :: cs) ln).2.s.length ≤ cs.length := by
  rw [getTokenS]
  split
  · simp only [List.length_drop, List.length_cons, List.length_nil]; omega
  · exact getTokenS_len _ cs _

theorem getLine_len : ∀ (s : List Nat) (ln : Int), (getLine s ln).2.s.length ≤ s.length
  | [], ln => by simp [getLine]
  | c :: cs, ln => by
    rw [getLine]
    split
    · simp
    · have := getLine_len cs ln
      simp only [List.length_cons]; omega

theorem getLine_cons_len (c : Nat) (cs : List Nat) (ln : Int) : (getLine (c :: cs) ln).2.s.length ≤ cs.length := by
  rw [getLine]
  split
  · simp
  · exact getLine_len cs ln

theorem skipSpace_len : ∀ (f : Nat) (s : List Nat) (ln : Int), (skipSpace f s ln).s.length ≤ s.length
  | 0, s, ln => by simp [skipSpace]
  | f + 1, [], ln => by simp [skipSpace]
  | f + 1, c :: cs, ln => by
    rw [skipSpace]
    split
    · have := skipSpace_len f cs ln
      simp only [List.length_cons]; omega
    · split
      · have h1 := getTokenS_cons_len 42 47 c cs ln
        have h2 := skipSpace_len f (getTokenS [42, 47] (c :: cs) ln).2.s (getTokenS [42, 47] (c :: cs) ln).2.line
        simp only [List.length_cons]; omega
      · simp

theorem Cur.skipSpace_len (c : Cur) : c.skipSpace.s.length ≤ c.s.length := Lx.skipSpace_len _ _ _

theorem skipSpaceRet_len : ∀ (f : Nat) (s : List Nat) (ln : Int), (skipSpaceRet f s ln).s.length ≤ s.length
  | 0, s, ln => by simp [skipSpaceRet]
  | f + 1, [], ln => by simp [skipSpaceRet]
  | f + 1, c :: cs, ln => by
    rw [skipSpaceRet]
    split
    · have := skipSpaceRet_len f cs (if c = 10 then ln + 1 else ln)
      simp only [List.length_cons]; omega
    · split
      · have h1 := getLine_cons_len c cs ln
        have h2 := skipSpaceRet_len f (getLine (c :: cs) ln).2.s (getLine (c :: cs) ln).2.line
        simp only [List.length_cons]; omega
      · split
        · have h1 := getTokenS_cons_len 42 47 c cs ln
          have h2 := skipSpaceRet_len f (getTokenS [42, 47] (c :: cs) ln).2.s (getTokenS [42, 47] (c :: cs) ln).2.line
          simp only [List.length_cons]; omega
        · simp

theorem getNoteLength_len : ∀ (f : Nat) (s : List Nat) (ln : Int), (getNoteLength f s ln).2.s.length ≤ s.length
  | 0, s, ln => by simp [getNoteLength]
  | f + 1, [], ln => by simp [getNoteLength]
  | f + 1, c :: cs, ln => by
    rw [getNoteLength]
    split
    · have := getNoteLength_len f cs ln
      simp only [List.length_cons]; omega
    · split
      · have := getNoteLength_len f cs ln
        simp only [List.length_cons]; omega
      · split
        · simp only []
          split
          · have h1 := skipSpaceRet_len (cs.length + 1) cs (ln + 1)
            have h2 := getNoteLength_len f (skipSpaceRet (cs.length + 1) cs (ln + 1)).s (skipSpaceRet (cs.length + 1) cs (ln + 1)).line
            simp only [List.length_cons]; omega
          · simp
        · simp

theorem Cur.noteLength_len (c : Cur) : c.noteLength.2.s.length ≤ c.s.length := getNoteLength_len _ _ _

theorem takeWord_len : ∀ s : List Nat, (takeWord s).1.length + (takeWord s).2.length = s.length
  | [] => by simp [takeWord]
  | c :: cs => by
    rw [takeWord]
    split
    · have := takeWord_len cs
      simp only [List.length_cons]; omega
    · simp

theorem getWord_len (s : List Nat) : (getWord s).1.length + (getWord s).2.length = s.length := by
  unfold getWord
  split
  · rename_i cs
    have := takeWord_len cs
    simp only [List.length_cons]; omega
  · exact takeWord_len s

theorem nestGo_len (o cl : Nat) : ∀ (s : List Nat) (level : Nat) (ln : Int),
    (nestGo o cl level s ln).1.length + (nestGo o cl level s ln).2.s.length ≤ s.length
  | [], level, ln => by simp [nestGo]
  | c :: cs, level, ln => by
    rw [nestGo]
    simp only []
    split
    · have := nestGo_len o cl cs (level + 1) (if c = 10 then ln + 1 else ln)
      simp only [List.length_cons]; omega
    · split
      · split
        · simp
        · have := nestGo_len o cl cs (level - 1) (if c = 10 then ln + 1 else ln)
          simp only [List.length_cons]; omega
      · have := nestGo_len o cl cs level (if c = 10 then ln + 1 else ln)
        simp only [List.length_cons]; omega

theorem getTokenNest_len (o cl : Nat) (s : List Nat) (ln : Int) :
    (getTokenNest o cl s ln).1.length + (getTokenNest o cl s ln).2.s.length ≤ s.length := by
  unfold getTokenNest
  split
  · rename_i c cs
    split
    · have := nestGo_len o cl cs 1 ln
      simp only [List.length_cons]; omega
    · exact nestGo_len o cl (c :: cs) 0 ln
  · simp

/-- a block that opens with its brace leaves out at least that brace -/
theorem getTokenNest_open_len (o cl : Nat) (cs : List Nat) (ln : Int) :
    (getTokenNest o cl (o :: cs) ln).1.length + (getTokenNest o cl (o :: cs) ln).2.s.length ≤ cs.length := by
  unfold getTokenNest
  simp only [if_true]
  exact nestGo_len o cl cs 1 ln

theorem accHex_len : ∀ (acc : Int) (s : List Nat), (accHex acc s).2.length ≤ s.length
  | acc, [] => by simp [accHex]
  | acc, c :: cs => by
    rw [accHex]
    split
    · rename_i d _
      have := accHex_len (acc * 16 + d) cs
      simp only [List.length_cons]; omega
    · simp

theorem accDec_len : ∀ (acc : Int) (s : List Nat), (accDec acc s).2.length ≤ s.length
  | acc, [] => by simp [accDec]
  | acc, c :: cs => by
    rw [accDec]
    split
    · have := accDec_len (acc * 10 + ((c : Int) - 48)) cs
      simp only [List.length_cons]; omega
    · simp

theorem accOct_len : ∀ (acc : Int) (s : List Nat), (accOct acc s).2.length ≤ s.length
  | acc, [] => by simp [accOct]
  | acc, c :: cs => by
    rw [accOct]
    split
    · have := accOct_len (acc * 8 + ((c : Int) - 48)) cs
      simp only [List.length_cons]; omega
    · simp

theorem stripMinus_len (s : List Nat) : (stripMinus s).2.length ≤ s.length := by
  unfold stripMinus
  split <;> simp

theorem getHex_len (dflt : Int) (s : List Nat) : (getHex dflt s).2.length ≤ s.length := by
  unfold getHex
  have h0 := stripMinus_len s
  have h1 := fun x => accHex_len 0 x
  grind

theorem getIntBody_len (dflt : Int) (m : Int × List Nat) : (getIntBody dflt m).2.length ≤ m.2.length := by
  unfold getIntBody
  have h0 := getHex_len dflt m.2
  have h1 := fun x => accOct_len 0 x
  have h2 := fun x => accDec_len 0 x
  have h3 : (m.2.drop 2).length ≤ m.2.length := by simp
  have h4 := accOct_len 0 (m.2.drop 2)
  split
  · exact h0
  · split
    · simp only []
      split
      · simp only []; omega
      · simp only []; omega
    · split
      · exact accDec_len 0 m.2
      · simp

theorem getInt_len (dflt : Int) (s : List Nat) : (getInt dflt s).2.length ≤ s.length := by
  unfold getInt
  have := getIntBody_len dflt (stripMinus s)
  have := stripMinus_len s
  omega


/-! ### argument readers -/

theorem readArg_len (tb : Int) : ∀ f, (∀ c : Cur, (readArgValue tb f c).2.s.length ≤ c.s.length) ∧ (∀ c : Cur, (readArgList tb f c).2.s.length ≤ c.s.length) := by
  intro f
  induction f with
  | zero => exact ⟨fun c => by simp [readArgValue], fun c => by simp [readArgList]⟩
  | succ f ih =>
    have hv : ∀ c : Cur, (readArgValue tb (f + 1) c).2.s.length ≤ c.s.length := by
      intro c0
      rw [readArgValue]
      have hsp := Cur.skipSpace_len c0
      simp only []
      generalize c0.skipSpace = c at hsp ⊢
      cases hcs : c.s with
      | nil => simp [hcs]
      | cons ch cs =>
        rw [hcs] at hsp
        simp only [List.length_cons] at hsp
        simp only []
        split
        · have := getWord_len (ch :: cs)
          simp only [List.length_cons] at this ⊢; omega
        · split
          · have := Cur.noteLength_len ⟨cs, c.line⟩
            simp only [] at this ⊢; omega
          · split
            · have := getInt_len 0 (ch :: cs)
              simp only [List.length_cons] at this ⊢; omega
            · split
              · have := ih.1 ⟨cs, c.line⟩
                simp only [] at this ⊢; omega
              · split
                · have h1 : (readArgList tb f ⟨cs, c.line⟩).2.s.length ≤ cs.length := ih.2 ⟨cs, c.line⟩
                  have h2 : (if peek (readArgList tb f ⟨cs, c.line⟩).2.s = 41 ∧ (readArgList tb f ⟨cs, c.line⟩).2.s ≠ [] then
                      (⟨(readArgList tb f ⟨cs, c.line⟩).2.s.drop 1, (readArgList tb f ⟨cs, c.line⟩).2.line⟩ : Cur) else (readArgList tb f ⟨cs, c.line⟩).2).s.length ≤ cs.length := by
                    split
                    · simp only [List.length_drop]; omega
                    · exact h1
                  split
                  · split <;> exact Nat.le_trans h2 (by omega)
                  · exact Nat.le_trans h2 (by omega)
                · split
                  · have := getTokenNest_len 123 125 (ch :: cs) c.line
                    simp only [List.length_cons] at this ⊢; omega
                  · simp only [hcs, List.length_cons]; omega
    refine ⟨hv, ?_⟩
    intro c
    rw [readArgList]
    simp only []
    have h1 := ih.1 c
    have h2 := Cur.skipSpace_len (readArgValue tb f c).2
    split
    · have h3 := ih.2 ⟨(readArgValue tb f c).2.skipSpace.s.drop 1, (readArgValue tb f c).2.skipSpace.line⟩
      simp only [List.length_drop] at h3 ⊢; omega
    · simp only []; omega

theorem Cur.argValue_len (tb : Int) (c : Cur) : (c.argValue tb).2.s.length ≤ c.s.length := (readArg_len tb _).1 c

theorem commaInt_len (dflt : Int) (sp : Bool) (c : Cur) : (commaInt dflt sp c).2.s.length ≤ c.s.length := by
  unfold commaInt
  split
  · rename_i r heq
    have h1 := Cur.skipSpace_len ⟨r, c.line⟩
    simp only [] at h1
    have h2 : (if sp = true ∧ peek (Cur.skipSpace ⟨r, c.line⟩).s = 43 ∧ (Cur.skipSpace ⟨r, c.line⟩).s ≠ [] then (Cur.skipSpace ⟨r, c.line⟩).s.drop 1 else (Cur.skipSpace ⟨r, c.line⟩).s).length ≤ r.length := by
      split
      · simp only [List.length_drop]; omega
      · exact h1
    have h3 := getInt_len dflt (if sp = true ∧ peek (Cur.skipSpace ⟨r, c.line⟩).s = 43 ∧ (Cur.skipSpace ⟨r, c.line⟩).s ≠ [] then (Cur.skipSpace ⟨r, c.line⟩).s.drop 1 else (Cur.skipSpace ⟨r, c.line⟩).s)
    simp only [heq, List.length_cons]
    omega
  · simp

theorem noteFlags_len : ∀ (s : List Nat) (fl : Int) (nat : Bool), (noteFlags s fl nat).2.2.length ≤ s.length
  | [], fl, nat => by simp [noteFlags]
  | c :: cs, fl, nat => by
    rw [noteFlags]
    split
    · have := noteFlags_len cs (fl + 1) nat; simp only [List.length_cons]; omega
    · split
      · have := noteFlags_len cs (fl - 1) nat; simp only [List.length_cons]; omega
      · split
        · have := noteFlags_len cs fl true; simp only [List.length_cons]; omega
        · simp

theorem slurSuffix_len (c : Cur) : (slurSuffix c).2.s.length ≤ c.s.length := by
  unfold slurSuffix
  split
  · rename_i r heq
    have h1 := Cur.skipSpace_len ⟨r, c.line⟩
    simp only [] at h1
    simp only [heq, List.length_cons]
    split
    · have := getInt_len 0 (Cur.skipSpace ⟨r, c.line⟩).s
      simp only []; omega
    · simp only []; omega
  · simp


/-! ### token readers -/

theorem readNote_len (ch : Nat) (c : Cur) : (readNote ch c).2.s.length ≤ c.s.length := by
  unfold readNote
  simp only []
  have h1 := noteFlags_len c.s 0 false
  have h2 := Cur.noteLength_len ⟨(noteFlags c.s 0 false).2.2, c.line⟩
  generalize (Cur.mk (noteFlags c.s 0 false).2.2 c.line).noteLength = ln at h2 ⊢
  have h3 := Cur.skipSpace_len ln.2
  generalize ln.2.skipSpace = c1 at h3 ⊢
  have h4 := commaInt_len 0 false c1
  generalize commaInt 0 false c1 = q at h4 ⊢
  have h5 := Cur.skipSpace_len q.2
  generalize q.2.skipSpace = c2 at h5 ⊢
  have h6 := commaInt_len (-1) true c2
  generalize commaInt (-1) true c2 = v at h6 ⊢
  have h7 := Cur.skipSpace_len v.2
  generalize v.2.skipSpace = c3 at h7 ⊢
  have h8 := commaInt_len intMin false c3
  generalize commaInt intMin false c3 = t at h8 ⊢
  have h9 := commaInt_len (-1) false t.2
  generalize commaInt (-1) false t.2 = o at h9 ⊢
  have h10 := slurSuffix_len o.2
  simp only [] at h2
  omega

theorem readNoteN_len (tb : Int) (c : Cur) : (readNoteN tb c).2.s.length ≤ c.s.length := by
  unfold readNoteN
  simp only []
  have hc1' : ∀ c1 : Cur, (match c1.s with | 44 :: r => (⟨r, c1.line⟩ : Cur) | _ => c1).s.length ≤ c1.s.length := by
    intro c1
    split
    · rename_i r heq; simp only [heq, List.length_cons]; omega
    · exact Nat.le_refl _
  have tail : ∀ t2 : Cur, t2.s.length ≤ c.s.length →
      (match t2.s with | 38 :: r => ((SV.int 1, (Cur.mk r t2.line).skipSpace) : SV × Cur) | _ => (SV.none, t2)).2.s.length ≤ c.s.length := by
    intro t2 h
    split
    · rename_i r heq
      have := Cur.skipSpace_len ⟨r, t2.line⟩
      rw [heq] at h
      simp only [List.length_cons] at h this ⊢
      omega
    · exact h
  apply tail
  refine Nat.le_trans (commaInt_len _ _ _) ?_
  refine Nat.le_trans (Cur.skipSpace_len _) ?_
  refine Nat.le_trans (commaInt_len _ _ _) ?_
  refine Nat.le_trans (Cur.skipSpace_len _) ?_
  refine Nat.le_trans (commaInt_len _ _ _) ?_
  refine Nat.le_trans (Cur.skipSpace_len _) ?_
  refine Nat.le_trans (Cur.noteLength_len _) ?_
  refine Nat.le_trans (hc1' _) ?_
  refine Nat.le_trans (Cur.skipSpace_len _) ?_
  exact Cur.argValue_len tb c

theorem stripStar_len (s : List Nat) : (stripStar s).length ≤ s.length := by
  unfold stripStar; split <;> simp

theorem readRest_len (c : Cur) : (readRest c).2.s.length ≤ c.s.length := by
  unfold readRest
  simp only []
  have h1 := stripStar_len c.s
  have h2 := stripMinus_len (stripStar c.s)
  have h3 := Cur.noteLength_len ⟨(stripMinus (stripStar c.s)).2, c.line⟩
  have h4 := Cur.skipSpace_len (Cur.mk (stripMinus (stripStar c.s)).2 c.line).noteLength.2
  simp only [] at h3
  omega

theorem readLength_len (c : Cur) (r : Tok × Cur) (h : readLength c = some r) : r.2.s.length ≤ c.s.length := by
  unfold readLength at h
  have := Cur.noteLength_len c
  split at h
  · simp only [] at h
    split at h
    · cases h
    · simp only [Option.some.injEq] at h; subst h; exact this
  · simp only [Option.some.injEq] at h; subst h; exact this

theorem readDotOrValue_len (tb : Int) (rnd plain : TT) (data : List SV) (c : Cur) (r : Tok × Cur)
    (h : readDotOrValue tb rnd plain data c = some r) : r.2.s.length ≤ c.s.length := by
  unfold readDotOrValue at h
  split at h
  · rename_i rr heq
    have hw := getWord_len rr
    have ha := Cur.argValue_len tb ⟨(getWord rr).2, c.line⟩
    simp only [] at ha
    simp only [] at h
    split at h
    · simp only [Option.some.injEq] at h; subst h; simp only [heq, List.length_cons]; omega
    · split at h
      · cases h
      · simp only [Option.some.injEq] at h; subst h; simp only [heq, List.length_cons]; omega
  · simp only [Option.some.injEq] at h; subst h
    exact Cur.argValue_len tb c

theorem readOctave_len (tb : Int) (c : Cur) (r : Tok × Cur) (h : readOctave tb c = some r) : r.2.s.length ≤ c.s.length :=
  readDotOrValue_len tb _ _ _ c r h

theorem readQlen_len (tb : Int) (c : Cur) (r : Tok × Cur) (h : readQlen tb c = some r) : r.2.s.length ≤ c.s.length := by
  unfold readQlen at h
  split at h
  · rename_i rr heq; simp only [Option.some.injEq] at h; subst h; simp [heq]; omega
  · rename_i rr heq; simp only [Option.some.injEq] at h; subst h; simp [heq]; omega
  · rename_i rr heq
    have h1 := readDotOrValue_len tb _ _ _ _ r h
    have h2 := getInt_len 0 rr
    simp only [heq, List.length_cons] at h1 ⊢; omega
  · rename_i rr _ heq
    have h1 := readDotOrValue_len tb _ _ _ _ r h
    have h2 := getInt_len 0 rr
    simp only [heq, List.length_cons] at h1 ⊢; omega
  · exact readDotOrValue_len tb _ _ _ c r h

theorem readVelocity_len (tb : Int) (c : Cur) (r : Tok × Cur) (h : readVelocity tb c = some r) : r.2.s.length ≤ c.s.length := by
  unfold readVelocity at h
  split at h
  · rename_i rr heq; simp only [Option.some.injEq] at h; subst h; simp [heq]; omega
  · rename_i rr heq; simp only [Option.some.injEq] at h; subst h; simp [heq]; omega
  · rename_i rr heq
    simp only [] at h
    have h1 := readDotOrValue_len tb _ _ _ _ r h
    have h2 := getInt_len 0 rr
    simp only [heq, List.length_cons] at h1 ⊢; omega
  · rename_i rr _ heq
    have h1 := readDotOrValue_len tb _ _ _ _ r h
    have h2 := getInt_len 0 rr
    simp only [heq, List.length_cons] at h1 ⊢; omega
  · exact readDotOrValue_len tb _ _ _ c r h

theorem readTiming_len (tb : Int) (c : Cur) (r : Tok × Cur) (h : readTiming tb c = some r) : r.2.s.length ≤ c.s.length := by
  unfold readTiming at h
  split at h
  · rename_i rr heq
    have h1 := readDotOrValue_len tb _ _ _ _ r h
    have h2 := getInt_len 0 rr
    simp only [heq, List.length_cons] at h1 ⊢; omega
  · rename_i rr _ heq
    have h1 := readDotOrValue_len tb _ _ _ _ r h
    simp only [heq, List.length_cons] at h1 ⊢; omega
  · exact readDotOrValue_len tb _ _ _ c r h

theorem readLoop_len (tb : Int) (c : Cur) : (readLoop tb c).2.s.length ≤ c.s.length := by
  unfold readLoop
  simp only []
  have h1 := Cur.skipSpace_len c
  split
  · have := Cur.argValue_len tb c.skipSpace
    simp only []; omega
  · simp only []; omega

theorem harmLen_len (c : Cur) : (harmLen c).2.s.length ≤ c.s.length := by
  unfold harmLen
  split
  · exact Cur.noteLength_len c
  · exact Nat.le_refl _

theorem harmArgs_len (lnv : SV) (c : Cur) : (harmArgs lnv c).2.s.length ≤ c.s.length := by
  unfold harmArgs
  split
  · rename_i r heq
    have h1 := getInt_len (-1) r
    simp only []
    split
    · rename_i r2 heq2
      have h2 := getInt_len (-1) r2
      rw [heq2] at h1
      simp only [heq, List.length_cons] at h1 ⊢; omega
    · simp only [heq, List.length_cons]; omega
  · exact Nat.le_refl _

theorem readHarmonyEnd_len (c : Cur) : (readHarmonyEnd c).2.s.length ≤ c.s.length := by
  unfold readHarmonyEnd
  simp only []
  have h1 := harmLen_len c
  have h2 := Cur.skipSpace_len (harmLen c).2
  have h3 := harmArgs_len (harmLen c).1 (harmLen c).2.skipSpace
  omega


/-! ## the main loop -/

/-- one step of the main loop asks the loop of the next lower fuel only about texts no longer than the rest of the text: the
    command character is consumed first, and a block is cut out of what follows -/
theorem lexLoop_congr (tb : Int) (f g : Nat) (c : Nat) (cs : List Nat) (ln : Int) (harm : Bool)
    (h : ∀ t l b, t.length ≤ cs.length → lexLoop tb f t l b = lexLoop tb g t l b) :
    lexLoop tb (f + 1) (c :: cs) ln harm = lexLoop tb (g + 1) (c :: cs) ln harm := by
  have hopt : ∀ (o : Option (Tok × Cur)), (∀ r, o = some r → r.2.s.length ≤ cs.length) →
      (match o with
       | some r => (match lexLoop tb f r.2.s r.2.line harm with | some o => some (⟨r.1 :: o.toks, o.errs⟩ : Out) | none => none)
       | none => none) =
      (match o with
       | some r => (match lexLoop tb g r.2.s r.2.line harm with | some o => some (⟨r.1 :: o.toks, o.errs⟩ : Out) | none => none)
       | none => none) := by
    intro o ho
    cases o with
    | none => rfl
    | some r => simp only []; rw [h _ _ _ (ho r rfl)]
  rw [lexLoop, lexLoop]
  simp only []
  by_cases h1 : zen2han c = 32 ∨ zen2han c = 9 ∨ zen2han c = 13 ∨ zen2han c = 124 ∨ zen2han c = 59
  · simp only [h1, if_true]
    exact h cs ln harm (Nat.le_refl _)
  simp only [h1, if_false]
  by_cases h2 : zen2han c = 10
  · simp only [h2, if_true]
    rw [h cs (ln + 1) harm (Nat.le_refl _)]
  simp only [h2, if_false]
  by_cases h3 : zen2han c = 99 ∨ zen2han c = 100 ∨ zen2han c = 101 ∨ zen2han c = 102 ∨ zen2han c = 103 ∨ zen2han c = 97 ∨ zen2han c = 98
  · simp only [h3, if_true]
    rw [h _ _ _ (readNote_len (zen2han c) ⟨cs, ln⟩)]
  simp only [h3, if_false]
  by_cases h4 : zen2han c = 110
  · simp only [h4, if_true]
    rw [h _ _ _ (readNoteN_len tb ⟨cs, ln⟩)]
  simp only [h4, if_false]
  by_cases h5 : zen2han c = 114
  · simp only [h5, if_true]
    rw [h _ _ _ (readRest_len ⟨cs, ln⟩)]
  simp only [h5, if_false]
  by_cases h6 : zen2han c = 108
  · simp only [h6, if_true]
    exact hopt _ (fun r hr => readLength_len ⟨cs, ln⟩ r hr)
  simp only [h6, if_false]
  by_cases h7 : zen2han c = 111
  · simp only [h7, if_true]
    exact hopt _ (fun r hr => readOctave_len tb ⟨cs, ln⟩ r hr)
  simp only [h7, if_false]
  by_cases h8 : zen2han c = 113
  · simp only [h8, if_true]
    exact hopt _ (fun r hr => readQlen_len tb ⟨cs, ln⟩ r hr)
  simp only [h8, if_false]
  by_cases h9 : zen2han c = 118
  · simp only [h9, if_true]
    exact hopt _ (fun r hr => readVelocity_len tb ⟨cs, ln⟩ r hr)
  simp only [h9, if_false]
  by_cases h10 : zen2han c = 116
  · simp only [h10, if_true]
    exact hopt _ (fun r hr => readTiming_len tb ⟨cs, ln⟩ r hr)
  simp only [h10, if_false]
  by_cases h11 : isUpper (zen2han c) = true ∨ zen2han c = 95
  · simp only [h11, if_true]
    split
    · rfl
    · split
      · rename_i hw
        have hlen := getWord_len (zen2han c :: cs)
        have hpos : 1 ≤ (getWord (zen2han c :: cs)).1.length := by
          rcases hw with hw | hw <;> rw [hw] <;> simp [wSub]
        have hw2 : (getWord (zen2han c :: cs)).2.length ≤ cs.length := by
          simp only [List.length_cons] at hlen; omega
        have hc1 := Cur.skipSpace_len ⟨(getWord (zen2han c :: cs)).2, ln⟩
        have hblk := getTokenNest_len 123 125 (Cur.skipSpace ⟨(getWord (zen2han c :: cs)).2, ln⟩).s (Cur.skipSpace ⟨(getWord (zen2han c :: cs)).2, ln⟩).line
        simp only [] at hc1
        rw [h _ _ _ (by omega), h _ _ _ (by omega)]
      · rfl
  simp only [h11, if_false]
  by_cases h12 : zen2han c = 35
  · simp only [h12, if_true]
    split
    · rw [h _ _ _ (getLine_cons_len _ _ _)]
    · rw [h _ _ _ (getLine_cons_len _ _ _)]
    · rw [h _ _ _ (getLine_cons_len _ _ _)]
    · rfl
  simp only [h12, if_false]
  by_cases h13 : zen2han c = 62
  · simp only [h13, if_true]; rw [h cs ln harm (Nat.le_refl _)]
  simp only [h13, if_false]
  by_cases h14 : zen2han c = 60
  · simp only [h14, if_true]; rw [h cs ln harm (Nat.le_refl _)]
  simp only [h14, if_false]
  by_cases h15 : zen2han c = 41
  · simp only [h15, if_true]; rw [h cs ln harm (Nat.le_refl _)]
  simp only [h15, if_false]
  by_cases h16 : zen2han c = 40
  · simp only [h16, if_true]; rw [h cs ln harm (Nat.le_refl _)]
  simp only [h16, if_false]
  by_cases h17 : zen2han c = 47
  · simp only [h17, if_true]
    split
    · rw [h _ _ _ (getLine_cons_len _ _ _)]
    · rw [h _ _ _ (getLine_cons_len _ _ _)]
    · rw [h _ _ _ (getTokenS_cons_len _ _ _ _ _)]
    · rw [h _ _ _ (getTokenS_cons_len _ _ _ _ _)]
    · rw [h cs ln harm (Nat.le_refl _)]
  simp only [h17, if_false]
  by_cases h18 : zen2han c = 91
  · simp only [h18, if_true]; rw [h _ _ _ (readLoop_len tb ⟨cs, ln⟩)]
  simp only [h18, if_false]
  by_cases h19 : zen2han c = 58
  · simp only [h19, if_true]; rw [h cs ln harm (Nat.le_refl _)]
  simp only [h19, if_false]
  by_cases h20 : zen2han c = 93
  · simp only [h20, if_true]; rw [h cs ln harm (Nat.le_refl _)]
  simp only [h20, if_false]
  by_cases h21 : zen2han c = 39
  · simp only [h21, if_true]
    split
    · rw [h _ _ _ (readHarmonyEnd_len ⟨cs, ln⟩)]
    · rw [h cs ln true (Nat.le_refl _)]
  simp only [h21, if_false]
  by_cases h22 : zen2han c = 123
  · simp only [h22, if_true]
    have hblk := getTokenNest_open_len 123 125 cs ln
    have hlens := Cur.noteLength_len (getTokenNest 123 125 (123 :: cs) ln).2
    rw [h _ _ _ (by omega), h _ _ _ (by omega)]
  simp only [h22, if_false]
  by_cases h23 : zen2han c = 96
  · simp only [h23, if_true]; rw [h cs ln harm (Nat.le_refl _)]
  simp only [h23, if_false]
  by_cases h24 : zen2han c = 34
  · simp only [h24, if_true]; rw [h cs ln harm (Nat.le_refl _)]
  simp only [h24, if_false]
  by_cases h25 : zen2han c = 63
  · simp only [h25, if_true]; rw [h cs ln harm (Nat.le_refl _)]
  simp only [h25, if_false]
  by_cases h26 : zen2han c = 64 ∨ zen2han c = 121 ∨ zen2han c = 112 ∨ zen2han c = 36 ∨ zen2han c = 38
  · simp only [h26, if_true]
  simp only [h26, if_false]
  rw [h cs ln harm (Nat.le_refl _)]

/-- one more unit of fuel changes nothing once the fuel exceeds the length of the text -/
theorem lexLoop_succ_stable (tb : Int) : ∀ (F : Nat) (text : List Nat) (ln : Int) (harm : Bool), text.length + 1 ≤ F →
    lexLoop tb (F + 1) text ln harm = lexLoop tb F text ln harm := by
  intro F
  induction F with
  | zero => intro text ln harm h; omega
  | succ F ih =>
    intro text ln harm h
    cases text with
    | nil => simp [lexLoop]
    | cons c cs =>
      simp only [List.length_cons] at h
      exact lexLoop_congr tb (F + 1) F c cs ln harm (fun t l b ht => ih t l b (by omega))

/-- **the lexer needs at most `length + 1` steps**: with any fuel above the length of the text the main loop gives the answer it
    gives with `length + 1` — whatever the text, the line and the chord flag -/
theorem lexLoop_fuel_stable (tb : Int) (text : List Nat) (ln : Int) (harm : Bool) (extra : Nat) :
    lexLoop tb (text.length + 1 + extra) text ln harm = lexLoop tb (text.length + 1) text ln harm := by
  induction extra with
  | zero => rfl
  | succ k ih =>
    rw [← ih]
    exact lexLoop_succ_stable tb (text.length + 1 + k) text ln harm (by omega)

end Sakura.Lx
