import SakuraVerif.Lemmas.LexPrint2
import SakuraVerif.Lemmas.LexTerm
import SakuraVerif.Lemmas.LexUnknown
/-! # A `;` after a program isolates it from whatever follows

For every program of the block language and **every** text `X` — inside the modelled subset or not, well-formed or not — the lexer
reads `program ; X` as the tokens of the program followed by whatever it makes of `X` alone (same tokens, same error entries, same
"outside the subset" answer).  This joins the two halves of the lexer work: the canonical-text theorem (`stab_printKL2`, which needs
the answer for the rest of the text to be independent of the step budget) and the termination theorem (`lexLoop_fuel_stable`, which
provides exactly that for an arbitrary rest). -/
namespace Sakura.Lp
open Sakura.Lx Sakura.Sut

/-- the loop on any text, with the budget `lex` gives it, is a budget-independent answer -/
theorem stab_any (tb : Int) (X : List Nat) (ln : Int) (harm : Bool) :
    Stab tb X ln harm (lexLoop tb (X.length + 1) X ln harm) (X.length + 1) := by
  intro F hF
  obtain ⟨e, rfl⟩ : ∃ e, F = X.length + 1 + e := ⟨F - (X.length + 1), by omega⟩
  exact lexLoop_fuel_stable tb X ln harm e

theorem Stab.semicolon {tb : Int} {R : List Nat} {ln : Int} {harm : Bool} {K : Option Out} {b : Nat} (h : Stab tb R ln harm K b) :
    Stab tb (59 :: R) ln harm K (b + 1) := by
  intro F hF
  obtain ⟨f, rfl⟩ : ∃ f, F = f + 1 := ⟨F - 1, by omega⟩
  rw [lexLoop]
  have hz : zen2han 59 = 59 := by decide
  simp only [hz, show ((59:Nat) = 32 ∨ (59:Nat) = 9 ∨ (59:Nat) = 13 ∨ (59:Nat) = 124 ∨ (59:Nat) = 59) by decide, if_true]
  exact h f (by omega)

theorem start_semicolon : Start 59 := by unfold Start; decide

/-- **`program ; X`**: for every program `cs` of the block language and every text `X`, with the step budget `lex` uses -/
theorem lex_semicolon_isolates (cs : List Core.Cmd) (hw : pwfL2 cs) (X : List Nat) :
    lexLoop 96 ((printKL2 cs (59 :: X)).length + 1) (printKL2 cs (59 :: X)) 0 false
      = preL (Ex2.rawL (Ex2.toTreesL cs)) (lexLoop 96 (X.length + 1) X 0 false) := by
  have hX := (stab_any 96 X 0 false).semicolon
  have h := stab_printKL2 96 countOK cs hw (59 :: X) _ _ (Or.inr ⟨59, X, rfl, start_semicolon⟩) hX
  have hl := costL2_le cs hw (59 :: X)
  simp only [List.length_cons] at hl
  exact h _ (by omega)

/-- **`program ‹c› X`** for a character `c` that starts no command: one error entry for `c`, then whatever the lexer makes of `X` alone -/
theorem lex_unknown_then_any (cs : List Core.Cmd) (hw : pwfL2 cs) (c : Nat) (hc : UnknownCh (zen2han c)) (hs : Start c) (X : List Nat) :
    lexLoop 96 ((printKL2 cs (c :: X)).length + 1) (printKL2 cs (c :: X)) 0 false
      = preL (Ex2.rawL (Ex2.toTreesL cs)) (addErr ⟨0, [zen2han c], X.take 8⟩ (lexLoop 96 (X.length + 1) X 0 false)) := by
  have hX := Stab.unknown (tb := 96) c hc (stab_any 96 X 0 false)
  have h := stab_printKL2 96 countOK cs hw (c :: X) _ _ (Or.inr ⟨c, X, rfl, hs⟩) hX
  have hl := costL2_le cs hw (c :: X)
  simp only [List.length_cons] at hl
  exact h _ (by omega)

/-- the word `End` (not followed by a word character) ends the text for the lexer, whatever comes after it -/
theorem lex_end_word (tb : Int) (f : Nat) (X : List Nat) (ln : Int) (harm : Bool) (hX : isWordChar (Lx.peek X) = false) :
    lexLoop tb (f + 1) (69 :: 110 :: 100 :: X) ln harm = some ⟨[], []⟩ := by
  rw [lexLoop]
  have hz : zen2han 69 = 69 := by decide
  have hsw : startsWith wEnd1 (69 :: 110 :: 100 :: X) = true := by simp [startsWith, wEnd1, List.isPrefixOf]
  simp only [hz, show ¬ ((69:Nat) = 32 ∨ (69:Nat) = 9 ∨ (69:Nat) = 13 ∨ (69:Nat) = 124 ∨ (69:Nat) = 59) by decide, if_false,
    show ¬ ((69:Nat) = 10) by decide, show ¬ ((69:Nat) = 99 ∨ (69:Nat) = 100 ∨ (69:Nat) = 101 ∨ (69:Nat) = 102 ∨ (69:Nat) = 103 ∨ (69:Nat) = 97 ∨ (69:Nat) = 98) by decide,
    show ¬ ((69:Nat) = 110) by decide, show ¬ ((69:Nat) = 114) by decide, show ¬ ((69:Nat) = 108) by decide, show ¬ ((69:Nat) = 111) by decide,
    show ¬ ((69:Nat) = 113) by decide, show ¬ ((69:Nat) = 118) by decide, show ¬ ((69:Nat) = 116) by decide,
    show (isUpper 69 = true ∨ (69:Nat) = 95) by decide, if_true, hsw, true_or, List.drop_succ_cons, List.drop_zero, hX, and_self, true_and]

/-- **everything after `End` is ignored**: `program End X` lexes to the tokens of the program and nothing else, with no error
    entry, for every text `X` that does not continue the word -/
theorem lex_end_ignores_rest (cs : List Core.Cmd) (hw : pwfL2 cs) (X : List Nat) (hX : isWordChar (Lx.peek X) = false) :
    Lx.lex 96 (printKL2 cs (69 :: 110 :: 100 :: X)) 0 = some ⟨Ex2.compileL cs, []⟩ := by
  have hE : Stab 96 (69 :: 110 :: 100 :: X) 0 false (some ⟨[], []⟩) 1 := by
    intro F hF
    obtain ⟨f, rfl⟩ : ∃ f, F = f + 1 := ⟨F - 1, by omega⟩
    exact lex_end_word 96 f X 0 false hX
  have hs : Start 69 := by unfold Start; decide
  have h := stab_printKL2 96 countOK cs hw (69 :: 110 :: 100 :: X) _ _ (Or.inr ⟨69, _, rfl, hs⟩) hE
  have hl := costL2_le cs hw (69 :: 110 :: 100 :: X)
  simp only [List.length_cons] at hl
  unfold Lx.lex
  rw [h _ (by omega)]
  simp [preL, Ex2.compileL, Ex2.lineTok]

end Sakura.Lp
