import SakuraVerif.Lemmas.LexPrint2
/-! # An unknown character at command position costs one error entry and nothing else

For the literal lexer model: a character that starts no command, written between two complete programs of the block language,
is reported once — with the line it stands on and the text that follows it — and the token list is exactly that of the two
programs written one after the other. -/
namespace Sakura.Lp
open Sakura.Lx Sakura.Sut

/-- the (half-width form of a) character starts no command of the lexer and is no separator -/
def UnknownCh (ch : Nat) : Prop :=
  ch ≠ 32 ∧ ch ≠ 9 ∧ ch ≠ 13 ∧ ch ≠ 124 ∧ ch ≠ 59 ∧ ch ≠ 10 ∧
  ch ≠ 99 ∧ ch ≠ 100 ∧ ch ≠ 101 ∧ ch ≠ 102 ∧ ch ≠ 103 ∧ ch ≠ 97 ∧ ch ≠ 98 ∧ ch ≠ 110 ∧ ch ≠ 114 ∧ ch ≠ 108 ∧ ch ≠ 111 ∧ ch ≠ 113 ∧
  ch ≠ 118 ∧ ch ≠ 116 ∧ (ch < 65 ∨ 90 < ch) ∧ ch ≠ 95 ∧ ch ≠ 35 ∧ ch ≠ 62 ∧ ch ≠ 60 ∧ ch ≠ 41 ∧ ch ≠ 40 ∧ ch ≠ 47 ∧ ch ≠ 91 ∧ ch ≠ 58 ∧
  ch ≠ 93 ∧ ch ≠ 39 ∧ ch ≠ 123 ∧ ch ≠ 96 ∧ ch ≠ 34 ∧ ch ≠ 63 ∧ ch ≠ 64 ∧ ch ≠ 121 ∧ ch ≠ 112 ∧ ch ≠ 36 ∧ ch ≠ 38

/-- put an error entry in front of a result -/
def addErr (e : Err) (r : Option Out) : Option Out := r.map (fun o => ⟨o.toks, e :: o.errs⟩)

theorem lex_unknown (tb : Int) (f : Nat) (c : Nat) (cs : List Nat) (ln : Int) (harm : Bool) (h : UnknownCh (zen2han c)) :
    lexLoop tb (f + 1) (c :: cs) ln harm = addErr ⟨ln, [zen2han c], cs.take 8⟩ (lexLoop tb f cs ln harm) := by
  obtain ⟨h1, h2, h3, h4, h5, h6, h7, h8, h9, h10, h11, h12, h13, h14, h15, h16, h17, h18, h19, h20, h21, h22, h23, h24, h25, h26, h27, h28,
    h29, h30, h31, h32, h33, h34, h35, h36, h37, h38, h39, h40, h41⟩ := h
  have hU : isUpper (zen2han c) = false := by
    simp only [isUpper, Bool.and_eq_false_iff, decide_eq_false_iff_not]; omega
  rw [lexLoop]
  simp only [hU, Bool.false_eq_true, false_or]
  repeat (rw [if_neg (by omega)])
  cases lexLoop tb f cs ln harm <;> rfl

theorem Stab.unknown {tb : Int} {R : List Nat} {ln : Int} {harm : Bool} {K : Option Out} {b : Nat} (c : Nat) (hc : UnknownCh (zen2han c))
    (h : Stab tb R ln harm K b) : Stab tb (c :: R) ln harm (addErr ⟨ln, [zen2han c], R.take 8⟩ K) (b + 1) := by
  intro F hF
  obtain ⟨f, rfl⟩ : ∃ f, F = f + 1 := ⟨F - 1, by omega⟩
  rw [lex_unknown tb f c R ln harm hc, h f (by omega)]

theorem preL_addErr (ts : List Tok) (e : Err) (r : Option Out) : preL ts (addErr e r) = addErr e (preL ts r) := by
  cases r <;> rfl

theorem toTreesL_append (a b : List Core.Cmd) : Ex2.toTreesL (a ++ b) = Ex2.toTreesL a ++ Ex2.toTreesL b := by
  induction a with
  | nil => rfl
  | cons c cs ih => simp only [List.cons_append, Ex2.toTreesL, ih, List.append_assoc]

/-- **an unknown character between two programs**: one error entry (line, the character, the eight characters after it), and the
    tokens of the two programs as if the character were absent -/
theorem lex_unknown_between (cs1 cs2 : List Core.Cmd) (hw1 : pwfL2 cs1) (hw2 : pwfL2 cs2) (c : Nat) (hc : UnknownCh (zen2han c)) (hs : Start c) :
    Lx.lex 96 (printKL2 cs1 (c :: printKL2 cs2 [])) 0
      = some ⟨Ex2.compileL (cs1 ++ cs2), [⟨0, [zen2han c], (printKL2 cs2 []).take 8⟩]⟩ := by
  have h2 := stab_printKL2 96 countOK cs2 hw2 [] (some ⟨[], []⟩) 1 (Or.inl rfl) (Stab.nil 96 0 false)
  have hu := Stab.unknown (tb := 96) c hc h2
  have h1 := stab_printKL2 96 countOK cs1 hw1 (c :: printKL2 cs2 []) _ _ (Or.inr ⟨c, _, rfl, hs⟩) hu
  have hl2 := costL2_le cs2 hw2 []
  have hl1 := costL2_le cs1 hw1 (c :: printKL2 cs2 [])
  simp only [List.length_nil, Nat.add_zero, List.length_cons] at hl1 hl2
  unfold Lx.lex
  rw [h1 _ (by omega)]
  simp [preL, addErr, Ex2.compileL, Ex2.lineTok, toTreesL_append, rawL_append]

end Sakura.Lp
