import SakuraVerif.Lemmas.ExecFrame
/-! # Track-local commands leave the song-level settings alone (C12: a syntactic class for which blocks commute)

`Local` is a class of tokens given by their kinds alone — notes, numbered notes, rests, `l o v q t` and their relative forms,
channel, voice, controllers, pitch bend, track key, slur mode, `Sub{…}`, tuplets and loops of such tokens.  In a *quiet* state
(outside a chord, no pending octave-once mark, the Random settings of the selected track switched off) such a token changes nothing
but the selected track, and leaves the state quiet.  So the semantic premise of `blocks_commute` holds for every block of `Local`
tokens. -/
namespace Sakura.Ex2
open Sakura Sakura.Lx

/-- the song-level settings, the `bad` flag aside -/
def glob (s : Song) : Song := { s with tracks := [], bad := false }

/-- outside a chord, no pending octave-once mark, Random settings of the selected track off, the selected track exists -/
def Quiet (s : Song) : Prop :=
  s.harmonyFlag = false ∧ s.octaveOnce = 0 ∧ s.t.oRand ≤ 0 ∧ s.t.vRand ≤ 0 ∧ s.t.tRand ≤ 0 ∧ s.t.qRand ≤ 0 ∧ s.cur < s.tracks.length

def localTy : TT → Bool
  | .note | .noteN | .rest | .length | .octave | .octaveRel | .qlen | .qlenRel | .velocity | .velocityRel | .timing
  | .comment | .timeBase | .channel | .trackKey | .tieMode | .voice | .controlChange | .pitchBend | .sub | .div
  | .loopBegin | .loopBreak | .loopEnd => true
  | _ => false

/-- the token, and every token inside its children, is of a track-local kind -/
inductive Local : Tok → Prop
  | mk (ty : TT) (vi ln : Int) (vs : Option (List Nat)) (data : List SV) (ch : Option (List Tok)) :
      localTy ty = true → (∀ l, ch = some l → ∀ a ∈ l, Local a) → Local (.mk ty vi ln vs data ch)

theorem local_ty (tk : Tok) (h : Local tk) : localTy tk.ty = true := by
  cases h with
  | mk ty vi ln vs data ch h1 h2 => exact h1

theorem local_children (tk : Tok) (h : Local tk) (ch : List Tok) (hc : tk.children = some ch) : ∀ a ∈ ch, Local a := by
  cases h with
  | mk ty vi ln vs data c h1 h2 => exact h2 ch hc

/-- the relation carried along a run: from a quiet state, the same song-level settings and again a quiet state -/
def Keeps (s s' : Song) : Prop := Quiet s → glob s' = glob s ∧ Quiet s'

theorem Keeps.refl (s : Song) : Keeps s s := fun h => ⟨rfl, h⟩
theorem Keeps.trans {a b c : Song} (h1 : Keeps a b) (h2 : Keeps b c) : Keeps a c := fun h =>
  let ⟨g1, q1⟩ := h1 h
  let ⟨g2, q2⟩ := h2 q1
  ⟨g2.trans g1, q2⟩

/-- writing a track that keeps the Random settings -/
theorem Keeps.setT (s : Song) (t' : Trk) (h : t'.oRand = s.t.oRand ∧ t'.vRand = s.t.vRand ∧ t'.tRand = s.t.tRand ∧ t'.qRand = s.t.qRand) :
    Keeps s (s.setT t') := by
  intro ⟨q1, q2, q3, q4, q5, q6, q7⟩
  refine ⟨rfl, q1, q2, ?_, ?_, ?_, ?_, by simpa [Song.setT] using q7⟩
  all_goals rw [setT_t' _ _ q7]
  · rw [h.1]; exact q3
  · rw [h.2.1]; exact q4
  · rw [h.2.2.1]; exact q5
  · rw [h.2.2.2]; exact q6

theorem Keeps.bad (s : Song) : Keeps s { s with bad := true } := fun h => ⟨rfl, h⟩

theorem drawIf_off (w v : Int) (s : Song) (h : w ≤ 0) : drawIf w v s = (v, s) := by
  unfold drawIf; rw [if_neg (by omega)]

theorem noteDraws_off (s : Song) (k v t q : Int) (h1 : s.t.oRand ≤ 0) (h2 : s.t.vRand ≤ 0) (h3 : s.t.tRand ≤ 0) (h4 : s.t.qRand ≤ 0) :
    noteDraws s k v t q = ((k, v, t, q), s) := by
  unfold noteDraws
  simp only [if_neg (show ¬ s.t.oRand > 0 by omega), drawIf_off _ _ _ h2, drawIf_off _ _ _ h3, drawIf_off _ _ _ h4]

theorem execNote_keeps (s : Song) (tk : Tok) : Keeps s (execNote s tk) := by
  intro hq
  obtain ⟨q1, q2, q3, q4, q5, q6, q7⟩ := hq
  unfold execNote
  simp only []
  split
  · exact Keeps.bad s ⟨q1, q2, q3, q4, q5, q6, q7⟩
  · rw [noteDraws_off s _ _ _ _ q3 q4 q5 q6]
    simp only []
    have hadv : ∀ tp, advance s tp = s.setT { s.t with timepos := tp } := by
      intro tp
      unfold advance
      simp only []
      have : (s.setT { s.t with timepos := tp }).octaveOnce = 0 := q2
      rw [if_neg (by rw [this]; simp)]
    rw [hadv]
    generalize hs1 : s.setT { s.t with timepos := _ } = s1
    have k1 : Keeps s s1 := hs1 ▸ Keeps.setT s _ ⟨rfl, rfl, rfl, rfl⟩
    obtain ⟨g1, r1, r2, r3, r4, r5, r6, r7⟩ := k1 ⟨q1, q2, q3, q4, q5, q6, q7⟩
    have k2 : ∀ ev sl, Keeps s1 (emitNote s1 ev sl) := by
      intro ev sl
      unfold emitNote
      simp only [r1, Bool.false_eq_true, if_false]
      split
      · exact Keeps.setT s1 _ ⟨rfl, rfl, rfl, rfl⟩
      · split
        · exact Keeps.setT s1 _ ⟨rfl, rfl, rfl, rfl⟩
        · exact Keeps.setT s1 _ ⟨rfl, rfl, rfl, rfl⟩
    obtain ⟨g2, h2⟩ := k2 _ _ ⟨r1, r2, r3, r4, r5, r6, r7⟩
    exact ⟨g2.trans g1, h2⟩

theorem execNoteN_keeps (s : Song) (tk : Tok) : Keeps s (execNoteN s tk) := by
  intro hq
  obtain ⟨q1, q2, q3, q4, q5, q6, q7⟩ := hq
  unfold execNoteN
  simp only []
  split
  · exact Keeps.bad s ⟨q1, q2, q3, q4, q5, q6, q7⟩
  · simp only [drawIf_off _ _ _ q4, drawIf_off _ _ _ q5, drawIf_off _ _ _ q6]
    exact Keeps.setT s _ ⟨rfl, rfl, rfl, rfl⟩ ⟨q1, q2, q3, q4, q5, q6, q7⟩

theorem block_keeps (F d : Nat) (ih : ∀ (tk : Tok) (s : Song), Local tk → Keeps s (leaf F d tk s))
    (ch : List Tok) (hch : ∀ a ∈ ch, Local a) (s0 s' : Song)
    (h : Loop.runFuel (leaf F d) (ch.map toLoopTok) F (0, [], s0) = some s') : Keeps s0 s' := by
  refine runFuel_rel (leaf F d) Keeps Keeps.refl (fun _ _ _ => Keeps.trans) _ ?_ F (0, [], s0) s' h
  intro a ha st
  obtain ⟨t, ht, he⟩ := List.mem_map.mp ha
  have := toLoopTok_other t a he
  subst this
  exact ih _ st (hch _ ht)

macro "keeps_arm" : tactic => `(tactic| first
  | exact Keeps.refl _
  | exact Keeps.bad _
  | exact Keeps.setT _ _ ⟨rfl, rfl, rfl, rfl⟩
  | exact execNote_keeps _ _
  | exact execNoteN_keeps _ _)

/-- a track-local token keeps the song-level settings and the quiet state — any arguments, any nesting, any fuel -/
theorem leaf_keeps (F : Nat) : ∀ (d : Nat) (tk : Tok) (s : Song), Local tk → Keeps s (leaf F d tk s) := by
  intro d
  induction d with
  | zero =>
    intro tk s hl
    have hty := local_ty tk hl
    by_cases hb : s.bad = true
    · unfold leaf; simp only [hb, if_true]; exact Keeps.refl _
    unfold leaf
    simp only [hb, Bool.false_eq_true, if_false]
    cases h : tk.ty
    all_goals rw [h] at hty
    all_goals first | exact absurd hty (by decide) | skip
    all_goals simp only []
    all_goals first
      | keeps_arm
      | (repeat' split) <;> keeps_arm
  | succ d ih =>
    intro tk s hl
    have hty := local_ty tk hl
    by_cases hb : s.bad = true
    · unfold leaf; simp only [hb, if_true]; exact Keeps.refl _
    by_cases hsub : tk.ty = .sub
    · unfold leaf
      simp only [hb, Bool.false_eq_true, if_false, hsub]
      cases hc : tk.children with
      | none => exact Keeps.bad _
      | some ch =>
        simp only []
        cases hr : Loop.runFuel (leaf F d) (ch.map toLoopTok) F (0, [], s) with
        | none => exact Keeps.bad _
        | some s' =>
          have hi := block_keeps F d ih ch (local_children tk hl ch hc) s s' hr
          simp only []
          split
          · exact hi
          · exact hi.trans (Keeps.setT _ _ ⟨rfl, rfl, rfl, rfl⟩)
    by_cases hdiv : tk.ty = .div
    · unfold leaf
      simp only [hb, Bool.false_eq_true, if_false, hdiv]
      cases hc : tk.children with
      | none => exact Keeps.bad _
      | some ch =>
        simp only []
        generalize hs0 : s.setT _ = s0
        have h0 : Keeps s s0 := hs0 ▸ Keeps.setT _ _ ⟨rfl, rfl, rfl, rfl⟩
        cases hr : Loop.runFuel (leaf F d) (ch.map toLoopTok) F (0, [], s0) with
        | none => exact Keeps.bad _
        | some s' =>
          have hi := h0.trans (block_keeps F d ih ch (local_children tk hl ch hc) s0 s' hr)
          simp only []
          split
          · exact hi
          · exact hi.trans (Keeps.setT _ _ ⟨rfl, rfl, rfl, rfl⟩)
    unfold leaf
    simp only [hb, Bool.false_eq_true, if_false]
    cases h : tk.ty
    all_goals rw [h] at hty
    all_goals first | exact absurd hty (by decide) | skip
    case sub => exact absurd h hsub
    case div => exact absurd h hdiv
    all_goals simp only []
    all_goals first
      | keeps_arm
      | (repeat' split) <;> keeps_arm

theorem exec_keeps (F D : Nat) (toks : List Tok) (h : ∀ a ∈ toks, Local a) (s s' : Song) (he : exec F D toks s = some s') :
    Keeps s s' :=
  block_keeps F D (leaf_keeps F D) toks h s s' he

theorem local_noTrack (tk : Tok) (h : Local tk) : NoTrack tk := by
  induction h with
  | mk ty vi ln vs data ch h1 _ ih =>
    refine NoTrack.mk ty vi ln vs data ch ?_ ?_ (fun l hl a ha => ih l hl a ha)
    · intro e; subst e; exact absurd h1 (by decide)
    · intro e; subst e; exact absurd h1 (by decide)

theorem sameGlobals_of_glob (s sA : Song) (a : Nat) (g : glob sA = glob (onTrack s a)) (hb : sA.bad = s.bad) : SameGlobals s sA := by
  obtain ⟨tb, tracks, cur, keyFlag, keyShift, useKeyShift, vAdd, qAdd, harmonyFlag, harmonyTime, harmonyEvents, octaveOnce, seed, playFrom,
    lineno, measureShift, timesigFrac, timesigDeno, tempo, bad⟩ := s
  obtain ⟨tb', tracks', cur', keyFlag', keyShift', useKeyShift', vAdd', qAdd', harmonyFlag', harmonyTime', harmonyEvents', octaveOnce', seed',
    playFrom', lineno', measureShift', timesigFrac', timesigDeno', tempo', bad'⟩ := sA
  simp only [glob, onTrack, Song.mk.injEq] at g
  simp only at hb
  obtain ⟨g1, _, _, g4, g5, g6, g7, g8, g9, g10, g11, g12, g13, g14, g15, g16, g17, g18, g19, _⟩ := g
  simp only [SameGlobals, Song.mk.injEq]
  exact ⟨g1, trivial, trivial, g4, g5, g6, g7, g8, g9, g10, g11, g12, g13, g14, g15, g16, g17, g18, g19, hb⟩

/-- **blocks of track-local commands addressed to different tracks commute** — no semantic premise: the blocks are lists of `Local`
    tokens (by kind, at any depth), the song is outside a chord with no pending octave-once mark, the two tracks exist and have their
    Random settings off, and both blocks stay inside the modelled subset (`bad = false`) -/
theorem local_blocks_commute (F D : Nat) (A B : List Tok) (hA : ∀ x ∈ A, Local x) (hB : ∀ x ∈ B, Local x)
    (s : Song) (a b : Nat) (hab : a ≠ b) (qa : Quiet (onTrack s a)) (qb : Quiet (onTrack s b))
    (sA sB : Song) (eA : exec F D A (onTrack s a) = some sA) (eB : exec F D B (onTrack s b) = some sB)
    (bA : sA.bad = s.bad) (bB : sB.bad = s.bad) :
    ∃ r1 r2, exec F D B (onTrack sA b) = some r1 ∧ exec F D A (onTrack sB a) = some r2 ∧ r1.tracks = r2.tracks ∧
      SameGlobals s r1 ∧ SameGlobals s r2 ∧
      ∀ i, r1.tracks[i]? = if i = a then sA.tracks[a]? else if i = b then sB.tracks[b]? else s.tracks[i]? := by
  have gA := (exec_keeps F D A hA _ _ eA qa).1
  have gB := (exec_keeps F D B hB _ _ eB qb).1
  exact blocks_commute F D A B (fun x hx => local_noTrack x (hA x hx)) (fun x hx => local_noTrack x (hB x hx)) s a b hab
    qa.2.2.2.2.2.2 qb.2.2.2.2.2.2 sA sB eA eB (sameGlobals_of_glob s sA a gA bA) (sameGlobals_of_glob s sB b gB bB)

end Sakura.Ex2
