import SakuraVerif.Lemmas.LoopMachine
/-! Control/data factorisation of the loop machine: the executed leaves form the unrolled program, and the number of
    steps depends on the program only (`machine_trace`); executable form `level_run` for fuel-driven runs. -/
namespace Sakura.Loop

-- (a b)^(n-1) a as a list
def iterL {α} (a b : List α) : Nat → List α
  | 0 => []
  | 1 => a
  | k+2 => a ++ b ++ iterL a b (k+1)

-- the unrolled program: leaves in execution order
mutual
def unroll {α} : Tree α → List α
  | .leaf a => [a]
  | .loop n b _ k => iterL (unrollL b) (unrollL k) n
def unrollL {α} : List (Tree α) → List α
  | [] => []
  | t :: ts => unroll t ++ unrollL ts
end

def foldAct {α σ} (act : α → σ → σ) (tr : List α) (s : σ) : σ := tr.foldl (fun s a => act a s) s

theorem foldAct_append {α σ} (act : α → σ → σ) (x y : List α) (s : σ) :
    foldAct act (x ++ y) s = foldAct act y (foldAct act x s) := by simp [foldAct]

theorem iter_fold {α σ} (act : α → σ → σ) (a b : List α) (n : Nat) (s : σ) :
    iter (foldAct act a) (foldAct act b) n s = foldAct act (iterL a b n) s := by
  induction n using Nat.strongRecOn generalizing s with
  | _ n ih =>
    match n with
    | 0 => simp [iter, iterL, foldAct]
    | 1 => simp [iter, iterL]
    | k+2 =>
      simp only [iter, iterL, foldAct_append]
      exact ih (k+1) (by omega) _

-- the structural semantics is the fold of the action over the unrolled program
mutual
theorem run_eq_fold {α σ} (act : α → σ → σ) (t : Tree α) (s : σ) : run act t s = foldAct act (unroll t) s := by
  cases t with
  | leaf a => simp [run, unroll, foldAct]
  | loop n b hb k =>
    simp only [run, unroll]
    have hb' : runL act b = foldAct act (unrollL b) := funext (runL_eq_fold act b)
    have hk' : runL act k = foldAct act (unrollL k) := funext (runL_eq_fold act k)
    rw [hb', hk', iter_fold]
theorem runL_eq_fold {α σ} (act : α → σ → σ) (ts : List (Tree α)) (s : σ) : runL act ts s = foldAct act (unrollL ts) s := by
  cases ts with
  | nil => simp [runL, unrollL, foldAct]
  | cons t ts =>
    simp only [runL, unrollL, foldAct_append]
    rw [run_eq_fold act t s, runL_eq_fold act ts]
end

/-- control never looks at the state: a run with any action is the run that records leaves, folded -/
theorem step_sim {α σ} (act : α → σ → σ) (toks : List (Tok α)) (p : Nat) (st : List Item) (tr : List α) (s : σ) :
    step act toks (p, st, foldAct act tr s) =
      (step (fun a (t : List α) => t ++ [a]) toks (p, st, tr)).map (fun c => (c.1, c.2.1, foldAct act c.2.2 s)) := by
  unfold step
  cases h : toks[p]? with
  | none => simp [h]
  | some t =>
    cases t with
    | other a => simp [h, foldAct]
    | lbegin n => simp [h]
    | lbreak =>
      cases st with
      | nil => simp [h]
      | cons it st' => simp only [h]; split <;> (try split) <;> (try split) <;> simp
    | lend =>
      cases st with
      | nil => simp [h]
      | cons it st' => simp only [h]; split <;> simp

theorem runN_sim {α σ} (act : α → σ → σ) (toks : List (Tok α)) (k : Nat) :
    ∀ (p : Nat) (st : List Item) (tr : List α) (s : σ),
    runN act toks k (p, st, foldAct act tr s) =
      (runN (fun a (t : List α) => t ++ [a]) toks k (p, st, tr)).map (fun c => (c.1, c.2.1, foldAct act c.2.2 s)) := by
  induction k with
  | zero => intro p st tr s; simp [runN]
  | succ k ih =>
    intro p st tr s
    simp only [runN, step_sim]
    cases h : step (fun a (t : List α) => t ++ [a]) toks (p, st, tr) with
    | none => simp
    | some c => obtain ⟨p', st', tr'⟩ := c; simp [ih]

theorem foldl_snoc {α} (l init : List α) : l.foldl (fun t a => t ++ [a]) init = init ++ l := by
  induction l generalizing init with
  | nil => simp
  | cons x xs ih => simp [ih]

/-- C05 at token level: there is a step count depending only on the program such that, for every
    action and state, the machine halts at the end with exactly the fold of the action over the
    *unrolled* program -/
theorem machine_trace {α} (ts : List (Tree α)) (hw : wfL ts = true) :
    ∃ k, ∀ {σ} (act : α → σ → σ) (s : σ),
      runN act (flattenL ts) k (0, [], s) = some ((flattenL ts).length, [], foldAct act (unrollL ts) s) := by
  obtain ⟨k, hk⟩ := machine_refines_tree (fun a (t : List α) => t ++ [a]) ts hw []
  refine ⟨k, fun act s => ?_⟩
  have := runN_sim act (flattenL ts) k 0 [] [] s
  simp only [foldAct, List.foldl_nil] at this
  rw [this, hk]
  have hrun : runL (fun a (t : List α) => t ++ [a]) ts [] = unrollL ts := by
    rw [runL_eq_fold]; simp only [foldAct]; rw [foldl_snoc]; simp
  simp [hrun, foldAct]


theorem runFuel_of_runN {α σ} (act : α → σ → σ) (toks : List (Tok α)) :
    ∀ (k : Nat) (c c' : Cfg σ), runN act toks k c = some c' → step act toks c' = none →
      ∀ F, k + 1 ≤ F → runFuel act toks F c = some c'.2.2 := by
  intro k
  induction k with
  | zero =>
    intro c c' h hs F hF
    simp [runN] at h; subst h
    obtain ⟨f, rfl⟩ : ∃ f, F = f + 1 := ⟨F - 1, by omega⟩
    simp [runFuel, hs]
  | succ k ih =>
    intro c c' h hs F hF
    obtain ⟨f, rfl⟩ : ∃ f, F = f + 1 := ⟨F - 1, by omega⟩
    simp only [runN] at h
    cases hst : step act toks c with
    | none => simp [hst] at h
    | some c1 =>
      simp only [hst] at h
      simp only [runFuel, hst]
      exact ih c1 c' h hs f (by omega)

theorem step_at_end {α σ} (act : α → σ → σ) (toks : List (Tok α)) (st : List Item) (s : σ) :
    step act toks (toks.length, st, s) = none := by
  simp [step]

/-- one level, executable form of `machine_trace`: with fuel above a bound that depends on the program only, the run
    ends with the fold of the action over the unrolled leaves -/
theorem level_run {α} (ts : List (Tree α)) (hw : wfL ts = true) :
    ∃ k, ∀ {σ} (act : α → σ → σ) (s : σ) (F : Nat), k + 1 ≤ F →
      runFuel act (flattenL ts) F (0, [], s) = some (foldAct act (unrollL ts) s) := by
  obtain ⟨k, hk⟩ := machine_trace ts hw
  exact ⟨k, fun act s F hF => runFuel_of_runN act _ k _ _ (hk act s) (step_at_end act _ _ _) F hF⟩

end Sakura.Loop
