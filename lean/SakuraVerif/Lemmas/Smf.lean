import SakuraVerif.Lemmas.Vlq
import SakuraVerif.Spec.SmfExpected
namespace Sakura
open Sakura.Spec

theorem clamp7_lt (v : Int) : clamp7 v < 128 := by
  unfold clamp7; split
  · decide
  · split
    · decide
    · omega

theorem status_eq (base : Nat) (ch : Int) (h0 : 0 ≤ ch) (h1 : ch < 16) (hb : base + 16 ≤ 256) :
    status base ch = base + ch.toNat := by
  unfold status u8
  have : (ch % 256).toNat = ch.toNat := by omega
  rw [this]; omega

theorem deltaBytes_nonneg (d : Int) (h : 0 ≤ d) : deltaBytes d = encodeDelta d.toNat := by
  unfold deltaBytes; simp; omega

/-- the message(s) of one event; for PitchBendRange the first of three -/
def msg1 (e : Event) : Msg :=
  let ch := e.ch.toNat
  match e.kind with
  | .noteOn => .noteOn ch (clamp7 e.v1) (clamp7 e.v3)
  | .noteOff => .noteOff ch (clamp7 e.v1) (clamp7 e.v3)
  | .voice => .prog ch (clamp7 e.v1)
  | .cc => .cc ch (clamp7 e.v1) (clamp7 e.v2)
  | .metaEv => .metaM e.v2.toNat e.data
  | .sysex => .sysex e.data.tail
  | .pitchBend => .bend ch (clamp14 e.v1 % 128).toNat ((clamp14 e.v1 / 128) % 128).toNat
  | .pitchBendRange => .cc ch 0x65 0
  | .directSmf => .sysex []

theorem take_all_lt (l r : List Nat) (h : l.all (· < 256) = true) :
    ((l ++ r).take l.length).all (· < 256) = true := by
  simp [List.take_left', h]

theorem decodeMsg_cc (ch c v : Nat) (rest : List Nat) (hch : ch < 16) (hc : c < 128) (hv : v < 128) :
    decodeMsg ((0xB0 + ch) :: c :: v :: rest) = some (.cc ch c v, rest) := by
  have a : (0xB0 + ch) / 16 = 11 := by omega
  have b : (0xB0 + ch) % 16 = ch := by omega
  simp [decodeMsg, a, b, d7, hc, hv]

theorem decodeMsg_simple (e : Event) (hv : Valid e) (hs : skipped e = false)
    (hk : e.kind ≠ .pitchBendRange) (rest : List Nat) :
    decodeMsg (body e ++ rest) = some (msg1 e, rest) := by
  obtain ⟨h0, h16, hv⟩ := hv
  have hc : e.ch.toNat < 16 := by omega
  cases hkind : e.kind <;> simp only [hkind] at hv hk
  · -- noteOn
    have a : (0x90 + e.ch.toNat) / 16 = 9 := by omega
    have b : (0x90 + e.ch.toNat) % 16 = e.ch.toNat := by omega
    simp [body, msg1, hkind, decodeMsg, status_eq _ _ h0 h16, a, b, d7, clamp7_lt]
  · have a : (0x80 + e.ch.toNat) / 16 = 8 := by omega
    have b : (0x80 + e.ch.toNat) % 16 = e.ch.toNat := by omega
    simp [body, msg1, hkind, decodeMsg, status_eq _ _ h0 h16, a, b, d7, clamp7_lt]
  · have a : (0xB0 + e.ch.toNat) / 16 = 11 := by omega
    have b : (0xB0 + e.ch.toNat) % 16 = e.ch.toNat := by omega
    simp [body, msg1, hkind, decodeMsg, status_eq _ _ h0 h16, a, b, d7, clamp7_lt]
  · -- pitchBend
    have a : (0xE0 + e.ch.toNat) / 16 = 14 := by omega
    have b : (0xE0 + e.ch.toNat) % 16 = e.ch.toNat := by omega
    have c : (clamp14 e.v1 % 128).toNat < 128 := by omega
    have d : ((clamp14 e.v1 / 128) % 128).toNat < 128 := by omega
    simp [body, msg1, hkind, decodeMsg, status_eq _ _ h0 h16, a, b, d7, c, d]
  · exact absurd rfl hk
  · -- voice
    have a : (0xC0 + e.ch.toNat) / 16 = 12 := by omega
    have b : (0xC0 + e.ch.toNat) % 16 = e.ch.toNat := by omega
    simp [body, msg1, hkind, decodeMsg, status_eq _ _ h0 h16, a, b, d7, clamp7_lt]
  · -- meta
    obtain ⟨h1, h2, h2', _, h3, h4, h5⟩ := hv
    have e1 : u8 e.v1 = 255 := by unfold u8; omega
    have e2 : u8 e.v2 = e.v2.toNat := by unfold u8; omega
    have e3 : u8 e.v3 = e.data.length := by unfold u8; omega
    have e2' : e.v2.toNat < 128 := by omega
    simp only [body, msg1, hkind, e1, e2, e3, List.cons_append, List.nil_append, decodeMsg]
    have := take_all_lt e.data rest h5
    simp [d7, e2', vlq_small _ h4, List.take_left', h5]
  · -- sysex
    rcases hv with hnil | ⟨hh, hall⟩
    · simp [skipped, hkind, hnil] at hs
    · cases hd : e.data with
      | nil => simp [hd] at hh
      | cons x xs =>
        simp only [hd, List.head?_cons, Option.some.injEq] at hh
        subst hh
        have hxs : xs.all (· < 256) = true := by
          simp only [hd, List.all_cons, Bool.and_eq_true] at hall; exact hall.2
        simp only [body, msg1, hkind, hd, List.tail_cons, List.length_cons, Nat.add_sub_cancel,
          List.cons_append, List.nil_append, List.append_assoc, decodeMsg]
        simp [vlq_roundtrip, List.take_left', hxs]
  · -- directSmf: not skipped contradicts Valid
    simp [skipped, hkind, hv] at hs

theorem isEot_msg1 (e : Event) (hv : Valid e) : isEot (msg1 e) = false := by
  obtain ⟨_, _, hv⟩ := hv
  cases hkind : e.kind <;> simp only [hkind] at hv <;> simp [msg1, hkind, isEot]
  · intro h; have := hv.2.2.2.1; omega

theorem decodeTrack_step {f : Nat} {bs r r' : List Nat} {d : Nat} {m : Msg} {rest : List (Nat × Msg)}
    (h1 : decodeVlq 0 bs = some (d, r)) (h2 : decodeMsg r = some (m, r')) (h3 : isEot m = false)
    (h4 : decodeTrack f r' = some rest) : decodeTrack (f+1) bs = some ((d, m) :: rest) := by
  simp [decodeTrack, h1, h2, h3, h4]

theorem decode_events (es : List Event) (hv : ∀ e ∈ es, Valid e) :
    ∀ (tp : Int) (F : Nat), SortedFrom tp es → 3 * es.length + 1 ≤ F →
      decodeTrack F (genEvents tp es ++ eotBytes) = some (expected tp es ++ [eotMsg]) := by
  induction es with
  | nil =>
    intro tp F _ hF
    cases F with
    | zero => omega
    | succ f => simp [genEvents, expected, eotBytes, eotMsg, decodeTrack, decodeVlq, decodeMsg, d7, isEot]
  | cons e es ih =>
    intro tp F hs hF
    have hve := hv e (List.mem_cons_self)
    have hvs : ∀ x ∈ es, Valid x := fun x hx => hv x (List.mem_cons_of_mem _ hx)
    simp only [List.length_cons] at hF
    obtain ⟨hs1, hs2⟩ := hs
    by_cases hsk : skipped e = true
    · -- skipped: nothing written, running time unchanged
      simp only [genEvents, expected, hsk, if_true]
      refine ih hvs tp F ?_ (by omega)
      -- sortedness from tp: etime e ≥ tp and the rest sorted from etime e
      clear ih hF
      cases es with
      | nil => trivial
      | cons x xs => exact ⟨Int.le_trans hs1 hs2.1, hs2.2⟩
    · have hsk' : skipped e = false := by simpa using hsk
      have hd : 0 ≤ etime e - tp := by omega
      simp only [genEvents, expected, hsk', Bool.false_eq_true, if_false, deltaBytes_nonneg _ hd]
      by_cases hk : e.kind = .pitchBendRange
      · obtain ⟨h0, h16, _⟩ := hve
        have hc : e.ch.toNat < 16 := by omega
        have hr : (if 0 ≤ e.v1 ∧ e.v1 ≤ 24 then e.v1.toNat else 0) < 128 := by split <;> omega
        obtain ⟨f, rfl⟩ : ∃ f, F = f + 3 := ⟨F - 3, by omega⟩
        have hrec := ih hvs (etime e) f hs2 (by omega)
        have hst : status 0xB0 e.ch = 0xB0 + e.ch.toNat := status_eq _ _ h0 h16 (by decide)
        simp only [body, hk, hst, List.append_assoc, expected1, List.cons_append, List.nil_append]
        refine decodeTrack_step (vlq_roundtrip _ _) (decodeMsg_cc _ _ _ _ hc (by decide) (by decide)) (by simp [isEot]) ?_
        refine decodeTrack_step (vlq_small 0 (by decide) _) (decodeMsg_cc _ _ _ _ hc (by decide) (by decide)) (by simp [isEot]) ?_
        exact decodeTrack_step (vlq_small 0 (by decide) _) (decodeMsg_cc _ _ _ _ hc (by decide) hr) (by simp [isEot]) hrec
      · obtain ⟨f, rfl⟩ : ∃ f, F = f + 1 := ⟨F - 1, by omega⟩
        have hrec := ih hvs (etime e) f hs2 (by omega)
        have hexp : expected1 (etime e - tp).toNat e = [((etime e - tp).toNat, msg1 e)] := by
          cases hkind : e.kind <;> simp [expected1, msg1, hkind]
          · exact absurd hkind hk
          · -- directSmf is always skipped under Valid
            obtain ⟨_, _, hv'⟩ := hve
            simp only [hkind] at hv'
            simp [skipped, hkind, hv'] at hsk'
        simp only [List.append_assoc, hexp]
        exact decodeTrack_step (vlq_roundtrip _ _) (decodeMsg_simple e hve hsk' hk _) (isEot_msg1 e hve) hrec

end Sakura
