import SakuraVerif.Model.ScriptExec
/-! # Termination of the script runner: the loop limit makes every non-recursive program finish

The literal runner takes a fuel argument (its recursion depth).  `needTok`/`needList` compute, from the program text alone,
a depth that suffices: one per token of a list, one per nesting level, `maxLoop + 2` for a `WHILE`/`FOR` (the counter cuts the
loop off after `maxLoop` passes whatever the condition says), and for a call the need of the callee's body, read from a table
`nf` of per-function needs.  `FnsNeed fns nf` says the table is sound (every body's need is within its entry); it exists
exactly when the call graph has no cycle — `nfOf` builds it for tables whose bodies call earlier functions only — and user
recursion without bound is what C07 excludes.  With at least that much fuel the result no longer depends on the fuel. -/
namespace Sakura.Sx

mutual
def needTok (nf : List Nat) : Tok → Nat
  | .mk ty _ tag _ _ _ ch =>
    2 + needOpt nf ch +
      (match ty with
       | .while_ | .for_ => maxLoop + 2
       | .callUser => nf.getD tag.toNat 0
       | _ => 0)
def needOpt (nf : List Nat) : Option (List Tok) → Nat
  | none => 2
  | some l => needList nf l
/-- length + 2 + the largest need of a member -/
def needList (nf : List Nat) : List Tok → Nat
  | [] => 2
  | t :: ts => max (needTok nf t + 3) (needList nf ts + 1)
end

theorem needList_ge2 (nf : List Nat) : ∀ l, 2 ≤ needList nf l
  | [] => by simp [needList]
  | t :: ts => by have := needList_ge2 nf ts; simp only [needList]; omega

theorem needList_cons_tok (nf : List Nat) (t : Tok) (ts : List Tok) : needTok nf t + 3 ≤ needList nf (t :: ts) := by
  simp only [needList]; omega
theorem needList_cons_tail (nf : List Nat) (t : Tok) (ts : List Tok) : needList nf ts + 1 ≤ needList nf (t :: ts) := by
  simp only [needList]; omega
theorem needList_single (nf : List Nat) (t : Tok) : needList nf [t] = needTok nf t + 3 := by
  simp only [needList]; omega

theorem needTok_kids (nf : List Nat) (t : Tok) : needList nf t.kids + 2 ≤ needTok nf t := by
  cases t with
  | mk ty vi tag line vs data ch =>
    cases ch with
    | none => simp only [Tok.kids, Tok.ch, Option.getD, needTok, needOpt, needList]; omega
    | some l => simp only [Tok.kids, Tok.ch, Option.getD, needTok, needOpt]; omega

theorem needTok_loop (nf : List Nat) (t : Tok) (h : t.ty = .while_ ∨ t.ty = .for_) : needList nf t.kids + maxLoop + 4 ≤ needTok nf t := by
  cases t with
  | mk ty vi tag line vs data ch =>
    simp only [Tok.ty] at h
    cases ch with
    | none => rcases h with h | h <;> subst h <;> simp only [Tok.kids, Tok.ch, Option.getD, needTok, needOpt, needList] <;> omega
    | some l => rcases h with h | h <;> subst h <;> simp only [Tok.kids, Tok.ch, Option.getD, needTok, needOpt] <;> omega

theorem needTok_call (nf : List Nat) (t : Tok) (h : t.ty = .callUser) : needList nf t.kids + 2 + nf.getD t.tag.toNat 0 ≤ needTok nf t := by
  cases t with
  | mk ty vi tag line vs data ch =>
    simp only [Tok.ty] at h
    subst h
    cases ch with
    | none => simp only [Tok.kids, Tok.ch, Tok.tag, Option.getD, needTok, needOpt, needList]; omega
    | some l => simp only [Tok.kids, Tok.ch, Tok.tag, Option.getD, needTok, needOpt]; omega

/-- the need of a member's own children is within the list's need -/
theorem needList_mem (nf : List Nat) : ∀ (l : List Tok) (t : Tok), t ∈ l → needTok nf t + 3 ≤ needList nf l
  | [], _, h => by cases h
  | a :: r, t, h => by
    rcases List.mem_cons.1 h with rfl | h
    · exact needList_cons_tok nf _ r
    · have := needList_mem nf r t h
      have := needList_cons_tail nf a r
      omega

/-- the table of per-function needs is sound -/
def FnsNeed (fns : List Fn) (nf : List Nat) : Prop :=
  ∀ i fn, fns[i]? = some fn → needList nf fn.body ≤ nf.getD i 0

section
variable (fns : List Fn) (nf : List Nat)

/-- one more unit of fuel changes nothing once the need is covered -/
def StableAt (f : Nat) : Prop :=
  (∀ t s, needTok nf t ≤ f → execTok fns (f + 1) t s = execTok fns f t s) ∧
  (∀ l s, needList nf l ≤ f → execList fns (f + 1) l s = execList fns f l s) ∧
  (∀ l s, needList nf l + 1 ≤ f → execArgs fns (f + 1) l s = execArgs fns f l s) ∧
  (∀ line c b k s, needList nf c + 1 + (maxLoop - k) ≤ f → needList nf b + 1 + (maxLoop - k) ≤ f →
      whileGo fns (f + 1) line c b k s = whileGo fns f line c b k s) ∧
  (∀ line c n b k s, needList nf c + 1 + (maxLoop - k) ≤ f → needList nf n + 1 + (maxLoop - k) ≤ f →
      needList nf b + 1 + (maxLoop - k) ≤ f → forGo fns (f + 1) line c n b k s = forGo fns f line c n b k s)

theorem valueWith_congr (r1 r2 : List Tok → St → St) (c : List Tok) (h : ∀ s, r1 c s = r2 c s) (s : St) :
    valueWith r1 c s = valueWith r2 c s := by
  unfold valueWith; rw [h]
theorem argsWith_congr (r1 r2 : List Tok → St → List V × St) (c : List Tok) (h : ∀ s, r1 c s = r2 c s) (s : St) :
    argsWith r1 c s = argsWith r2 c s := by
  unfold argsWith; rw [h]

theorem whileNext_again_lt (line : Int) (k : Nat) (s3 s' : St) (h : whileNext line k s3 = .again s') : k + 1 ≤ maxLoop := by
  unfold whileNext at h
  by_cases h1 : k + 1 > maxLoop
  · simp only [h1, if_true] at h; cases h
  · omega
theorem forNext_again_lt (line : Int) (k : Nat) (s3 s' : St) (h : forNext line k s3 = .again s') : k + 1 ≤ maxLoop := by
  unfold forNext at h
  by_cases h1 : k + 1 > maxLoop
  · simp only [h1, if_true] at h; cases h
  · omega

theorem stable_zero : StableAt fns nf 0 := by
  refine ⟨?_, ?_, ?_, ?_, ?_⟩
  · intro t s h
    have := needTok_kids nf t
    omega
  · intro l s h; have := needList_ge2 nf l; omega
  · intro l s h; have := needList_ge2 nf l; omega
  · intro line c b k s h; omega
  · intro line c n b k s h; omega

theorem stable_list (f : Nat) (ih : StableAt fns nf f) : ∀ l s, needList nf l ≤ f + 1 → execList fns (f + 2) l s = execList fns (f + 1) l s := by
  intro l s h
  cases l with
  | nil => rw [execList, execList]
  | cons t ts =>
    have h1 := needList_cons_tok nf t ts
    have h2 := needList_cons_tail nf t ts
    rw [execList, execList]
    by_cases hb : s.brk ≠ 0
    · rw [if_pos hb, if_pos hb]
    · rw [if_neg hb, if_neg hb, ih.1 t s (by omega), ih.2.1 ts _ (by omega)]

theorem stable_args (f : Nat) (ih : StableAt fns nf f) : ∀ l s, needList nf l + 1 ≤ f + 1 → execArgs fns (f + 2) l s = execArgs fns (f + 1) l s := by
  intro l s h
  cases l with
  | nil => rw [execArgs, execArgs]
  | cons t ts =>
    have h1 := needList_cons_tok nf t ts
    have h2 := needList_cons_tail nf t ts
    have h3 := needList_single nf t
    rw [execArgs, execArgs]
    rw [ih.2.1 [t] s (by omega), ih.2.2.1 ts _ (by omega)]

theorem stable_while (f : Nat) (ih : StableAt fns nf f) : ∀ line c b k s, needList nf c + 1 + (maxLoop - k) ≤ f + 1 →
    needList nf b + 1 + (maxLoop - k) ≤ f + 1 → whileGo fns (f + 2) line c b k s = whileGo fns (f + 1) line c b k s := by
  intro line c b k s hc hb
  rw [whileGo, whileGo]
  rw [valueWith_congr (execList fns (f + 1)) (execList fns f) c (fun s => ih.2.1 c s (by omega))]
  by_cases hv : (valueWith (execList fns f) c s).1.toB = false
  · simp only [hv, if_true]
  · simp only [hv]
    rw [ih.2.1 b _ (by omega)]
    cases hn : whileNext line k (execList fns f b (valueWith (execList fns f) c s).2) with
    | stop s' => rfl
    | again s' =>
      have := whileNext_again_lt _ _ _ _ hn
      exact ih.2.2.2.1 line c b (k + 1) s' (by omega) (by omega)

theorem stable_for (f : Nat) (ih : StableAt fns nf f) : ∀ line c n b k s, needList nf c + 1 + (maxLoop - k) ≤ f + 1 →
    needList nf n + 1 + (maxLoop - k) ≤ f + 1 → needList nf b + 1 + (maxLoop - k) ≤ f + 1 →
    forGo fns (f + 2) line c n b k s = forGo fns (f + 1) line c n b k s := by
  intro line c n b k s hc hn' hb
  rw [forGo, forGo]
  rw [valueWith_congr (execList fns (f + 1)) (execList fns f) c (fun s => ih.2.1 c s (by omega))]
  by_cases hv : (valueWith (execList fns f) c s).1.toB = false
  · simp only [hv, if_true]
  · simp only [hv]
    rw [ih.2.1 b _ (by omega)]
    cases hn : forNext line k (execList fns f b (valueWith (execList fns f) c s).2) with
    | stop s' => rfl
    | again s' =>
      have := forNext_again_lt _ _ _ _ hn
      simp only []
      rw [ih.2.1 n s' (by omega)]
      exact ih.2.2.2.2 line c n b (k + 1) _ (by omega) (by omega) (by omega)

theorem stable_tok (hfn : FnsNeed fns nf) (f : Nat) (ih : StableAt fns nf f) : ∀ t s, needTok nf t ≤ f + 1 →
    execTok fns (f + 2) t s = execTok fns (f + 1) t s := by
  intro t s h
  have hk := needTok_kids nf t
  have hA : ∀ s, argsWith (execArgs fns (f + 1)) t.kids s = argsWith (execArgs fns f) t.kids s :=
    fun s => argsWith_congr _ _ _ (fun s => ih.2.2.1 t.kids s (by omega)) s
  have hV : ∀ s, valueWith (execList fns (f + 1)) t.kids s = valueWith (execList fns f) t.kids s :=
    fun s => valueWith_congr _ _ _ (fun s => ih.2.1 t.kids s (by omega)) s
  have hL : ∀ s, execList fns (f + 1) t.kids s = execList fns f t.kids s := fun s => ih.2.1 t.kids s (by omega)
  have hKid : ∀ c ∈ t.kids, ∀ s, execList fns (f + 1) c.kids s = execList fns f c.kids s := by
    intro c hc s
    have := needList_mem nf t.kids c hc
    have := needTok_kids nf c
    exact ih.2.1 c.kids s (by omega)
  have hKidV : ∀ c ∈ t.kids, ∀ s, valueWith (execList fns (f + 1)) c.kids s = valueWith (execList fns f) c.kids s :=
    fun c hc s => valueWith_congr _ _ _ (hKid c hc) s
  rw [execTok, execTok]
  cases hty : t.ty <;> simp only [hA, hV, hL]
  case if_ =>
    cases hkids : t.kids with
    | nil => rfl
    | cons c r1 =>
      cases r1 with
      | nil => rfl
      | cons th r2 =>
        cases r2 with
        | nil => rfl
        | cons el r3 =>
          have hc : c ∈ t.kids := by rw [hkids]; simp
          have hth : th ∈ t.kids := by rw [hkids]; simp
          have hel : el ∈ t.kids := by rw [hkids]; simp
          simp only [hKidV c hc, hKid th hth, hKid el hel]
  case while_ =>
    cases hkids : t.kids with
    | nil => rfl
    | cons c r1 =>
      cases r1 with
      | nil => rfl
      | cons b r2 =>
        have hc : c ∈ t.kids := by rw [hkids]; simp
        have hb : b ∈ t.kids := by rw [hkids]; simp
        have h1 := needList_mem nf t.kids c hc
        have h2 := needList_mem nf t.kids b hb
        have h3 := needTok_kids nf c
        have h4 := needTok_kids nf b
        have h5 := needTok_loop nf t (Or.inl hty)
        exact ih.2.2.2.1 t.line c.kids b.kids 0 s (by omega) (by omega)
  case for_ =>
    cases hkids : t.kids with
    | nil => rfl
    | cons i r0 =>
      cases r0 with
      | nil => rfl
      | cons c r1 =>
        cases r1 with
        | nil => rfl
        | cons n r2 =>
          cases r2 with
          | nil => rfl
          | cons b r3 =>
            have hi : i ∈ t.kids := by rw [hkids]; simp
            have hc : c ∈ t.kids := by rw [hkids]; simp
            have hn : n ∈ t.kids := by rw [hkids]; simp
            have hb : b ∈ t.kids := by rw [hkids]; simp
            have h1 := needList_mem nf t.kids c hc
            have h2 := needList_mem nf t.kids b hb
            have h2' := needList_mem nf t.kids n hn
            have h3 := needTok_kids nf c
            have h4 := needTok_kids nf b
            have h4' := needTok_kids nf n
            have h5 := needTok_loop nf t (Or.inr hty)
            simp only [hKid i hi]
            exact ih.2.2.2.2 t.line c.kids n.kids b.kids 0 _ (by omega) (by omega) (by omega)
  case callUser =>
    cases hfn' : fns[t.tag.toNat]? with
    | none => rfl
    | some fn =>
      have h5 := needTok_call nf t hty
      have h6 := hfn _ _ hfn'
      simp only []
      by_cases hneg : t.tag < 0
      · simp only [hneg, if_true]
      · simp only [hneg, if_false]
        rw [ih.2.1 fn.body _ (by omega)]

theorem stable_step (hfn : FnsNeed fns nf) (f : Nat) (ih : StableAt fns nf f) : StableAt fns nf (f + 1) :=
  ⟨stable_tok fns nf hfn f ih, stable_list fns nf f ih, stable_args fns nf f ih, stable_while fns nf f ih, stable_for fns nf f ih⟩

theorem stableAt (hfn : FnsNeed fns nf) : ∀ f, StableAt fns nf f
  | 0 => stable_zero fns nf
  | f + 1 => stable_step fns nf hfn f (stableAt hfn f)

/-- **fuel independence**: once the fuel covers the program's need, more fuel gives the same final state -/
theorem run_fuel_stable (hfn : FnsNeed fns nf) (toks : List Tok) (s : St) (f extra : Nat) (h : needList nf toks ≤ f) :
    execList fns (f + extra) toks s = execList fns f toks s := by
  induction extra with
  | zero => rfl
  | succ k ih =>
    rw [← ih]
    exact (stableAt fns nf hfn (f + k)).2.1 toks s (by omega)

end

/-- programs without user functions: every call is a dead end in the model, `WHILE`/`FOR` stop at the limit — the need computed
    from the text alone always suffices -/
theorem run_fuel_stable_nofn (toks : List Tok) (extra : Nat) :
    run [] toks (needList [] toks + extra) = run [] toks (needList [] toks) :=
  run_fuel_stable [] [] (by intro i fn h; simp at h) toks {} _ extra (Nat.le_refl _)

/-! ## non-recursive function tables have a sound table of needs -/

mutual
/-- every call in the token goes to a function numbered below `n` -/
def belowTok (n : Nat) : Tok → Bool
  | .mk ty _ tag _ _ _ ch =>
    belowOpt n ch && (match ty with | .callUser => decide (tag.toNat < n) | _ => true)
def belowOpt (n : Nat) : Option (List Tok) → Bool
  | none => true
  | some l => belowList n l
def belowList (n : Nat) : List Tok → Bool
  | [] => true
  | t :: ts => belowTok n t && belowList n ts
end

/-- bodies call earlier functions only: the call graph has no cycle -/
def Ranked (fns : List Fn) : Prop := ∀ i fn, fns[i]? = some fn → belowList i fn.body = true

mutual
theorem needTok_congr (nf nf' : List Nat) (n : Nat) (h : ∀ j, j < n → nf.getD j 0 = nf'.getD j 0) :
    ∀ t, belowTok n t = true → needTok nf t = needTok nf' t
  | .mk ty vi tag line vs data ch, hb => by
    simp only [belowTok, Bool.and_eq_true] at hb
    have h1 := needOpt_congr nf nf' n h ch hb.1
    cases ty <;> simp only [needTok, h1]
    case callUser =>
      have := hb.2
      simp only [decide_eq_true_eq] at this
      rw [h _ this]
theorem needOpt_congr (nf nf' : List Nat) (n : Nat) (h : ∀ j, j < n → nf.getD j 0 = nf'.getD j 0) :
    ∀ o, belowOpt n o = true → needOpt nf o = needOpt nf' o
  | none, _ => rfl
  | some l, hb => by
    simp only [belowOpt] at hb
    simp only [needOpt, needList_congr nf nf' n h l hb]
theorem needList_congr (nf nf' : List Nat) (n : Nat) (h : ∀ j, j < n → nf.getD j 0 = nf'.getD j 0) :
    ∀ l, belowList n l = true → needList nf l = needList nf' l
  | [], _ => rfl
  | t :: ts, hb => by
    simp only [belowList, Bool.and_eq_true] at hb
    simp only [needList, needTok_congr nf nf' n h t hb.1, needList_congr nf nf' n h ts hb.2]
end

/-- the table built front to back: each entry is the need of that body under the entries before it -/
def nfGo : List Nat → List Fn → List Nat
  | acc, [] => acc
  | acc, fn :: r => nfGo (acc ++ [needList acc fn.body]) r
def nfOf (fns : List Fn) : List Nat := nfGo [] fns

theorem nfGo_append (acc : List Nat) (l1 l2 : List Fn) : nfGo acc (l1 ++ l2) = nfGo (nfGo acc l1) l2 := by
  induction l1 generalizing acc with
  | nil => rfl
  | cons fn r ih => simp only [List.cons_append, nfGo]; exact ih _

theorem nfGo_length (acc : List Nat) (l : List Fn) : (nfGo acc l).length = acc.length + l.length := by
  induction l generalizing acc with
  | nil => simp [nfGo]
  | cons fn r ih => simp only [nfGo, ih, List.length_append, List.length_cons, List.length_nil]; omega

theorem nfGo_prefix (acc : List Nat) (l : List Fn) (j : Nat) (hj : j < acc.length) : (nfGo acc l).getD j 0 = acc.getD j 0 := by
  induction l generalizing acc with
  | nil => rfl
  | cons fn r ih =>
    simp only [nfGo]
    rw [ih _ (by simp only [List.length_append, List.length_cons, List.length_nil]; omega)]
    simp only [List.getD_eq_getElem?_getD]
    rw [List.getElem?_append_left hj]

theorem nfGo_head (acc : List Nat) (fn : Fn) (r : List Fn) : (nfGo acc (fn :: r)).getD acc.length 0 = needList acc fn.body := by
  simp only [nfGo]
  rw [nfGo_prefix _ r acc.length (by simp)]
  simp [List.getD_eq_getElem?_getD]

theorem split_at (fns : List Fn) (i : Nat) (fn : Fn) (hi : fns[i]? = some fn) :
    ∃ l1 l2, fns = l1 ++ fn :: l2 ∧ l1.length = i := by
  rcases List.getElem?_eq_some_iff.1 hi with ⟨h, he⟩
  refine ⟨fns.take i, fns.drop (i + 1), ?_, ?_⟩
  · rw [← he]
    exact (List.take_append_drop i fns).symm.trans (by rw [List.drop_eq_getElem_cons h])
  · simp [List.length_take]; omega

/-- a table without call cycles has a sound table of needs -/
theorem ranked_fnsNeed (fns : List Fn) (hr : Ranked fns) : FnsNeed fns (nfOf fns) := by
  intro i fn hi
  have hb := hr i fn hi
  obtain ⟨l1, l2, rfl, hl⟩ := split_at fns i fn hi
  have hlen : (nfGo [] l1).length = i := by rw [nfGo_length]; simp [hl]
  have hsplit : nfOf (l1 ++ fn :: l2) = nfGo (nfGo [] l1) (fn :: l2) := nfGo_append [] l1 (fn :: l2)
  have hentry : (nfOf (l1 ++ fn :: l2)).getD i 0 = needList (nfGo [] l1) fn.body := by
    rw [hsplit]
    have := nfGo_head (nfGo [] l1) fn l2
    rw [hlen] at this
    exact this
  have hagree : ∀ j, j < i → (nfOf (l1 ++ fn :: l2)).getD j 0 = (nfGo [] l1).getD j 0 := by
    intro j hj
    rw [hsplit]
    exact nfGo_prefix _ _ j (by omega)
  rw [hentry, needList_congr _ _ i hagree fn.body hb]
  exact Nat.le_refl _

/-- **every non-recursive program finishes**: with the need computed from the text as fuel, more fuel changes nothing -/
theorem ranked_run_fuel_stable (fns : List Fn) (hr : Ranked fns) (toks : List Tok) (extra : Nat) :
    run fns toks (needList (nfOf fns) toks + extra) = run fns toks (needList (nfOf fns) toks) :=
  run_fuel_stable fns (nfOf fns) (ranked_fnsNeed fns hr) toks {} _ extra (Nat.le_refl _)

end Sakura.Sx
