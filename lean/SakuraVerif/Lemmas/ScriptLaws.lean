import SakuraVerif.Lemmas.ScriptScope
import SakuraVerif.Lemmas.ScriptStack
/-! # Laws of the literal script runner that the property states outright

IF runs exactly one branch; a pending BREAK/CONTINUE/RETURN skips the rest of a statement list (so RETURN ends the call at once);
a call binds its parameters positionally, an omitted or `None` argument taking the declared default. -/
namespace Sakura.Sx

section
variable (fns : List Fn)

/-- **IF runs exactly one branch**: after the condition has been evaluated, the THEN block when its value is not 0, else the ELSE block -/
theorem if_one_branch (f : Nat) (vi tag line : Int) (vs : Option (List Nat)) (data : List Dat) (c th el : Tok) (rest : List Tok) (s : St) :
    execTok fns (f + 1) (.mk .if_ vi tag line vs data (some (c :: th :: el :: rest))) s =
      (if (valueWith (execList fns f) c.kids s).1.toI ≠ 0
       then execList fns f th.kids (valueWith (execList fns f) c.kids s).2
       else execList fns f el.kids (valueWith (execList fns f) c.kids s).2) := by
  rw [execTok]
  simp only [Tok.ty, kids_mk]

/-- a pending BREAK / CONTINUE / RETURN skips the rest of a statement list -/
theorem pending_skips (f : Nat) (l : List Tok) (s : St) (h : s.brk ≠ 0) (hf : 0 < f) : execList fns f l s = s := by
  obtain ⟨g, rfl⟩ : ∃ g, f = g + 1 := ⟨f - 1, by omega⟩
  cases l with
  | nil => rw [execList]
  | cons t ts => rw [execList]; simp [h]

/-- **RETURN ends the run of a statement list at once**: whatever follows a statement that leaves a flag pending is not executed -/
theorem after_flag_nothing_runs (f : Nat) (t : Tok) (rest : List Tok) (s : St) (hs : s.brk = 0)
    (ht : (execTok fns (f + 1) t s).brk ≠ 0) :
    execList fns (f + 2) (t :: rest) s = execTok fns (f + 1) t s := by
  rw [execList]
  simp only [hs, ne_eq, not_true_eq_false, if_false]
  exact pending_skips fns (f + 1) rest _ ht (by omega)

/-- the RETURN statement stores its value as `Result` in the innermost scope and raises flag 3 -/
theorem return_sets_result (f : Nat) (vi tag line : Int) (vs : Option (List Nat)) (data : List Dat) (kids : List Tok) (s : St) :
    execTok fns (f + 1) (.mk .return_ vi tag line vs data (some kids)) s =
      { setVar (valueWith (execList fns f) kids s).2 strResult (valueWith (execList fns f) kids s).1 with brk := 3 } := by
  rw [execTok]
  simp only [Tok.ty, kids_mk]

end

/-! ## positional binding with defaults -/

theorem lookup_setVar_same (s : St) (sc : Scope) (r : List Scope) (hs : s.scopes = sc :: r) (k : List Nat) (v : V) :
    getVar (setVar s k v).scopes k = some v := by
  unfold setVar
  simp only [hs, getVar, lookupScope, List.find?_cons, beq_self_eq_true, Option.map_some]

theorem find_filter_ne (sc : Scope) (k k' : List Nat) (hne : k' ≠ k) :
    (sc.filter (fun p => p.1 != k)).find? (fun p => p.1 == k') = sc.find? (fun p => p.1 == k') := by
  induction sc with
  | nil => rfl
  | cons p t ih =>
    by_cases hp : p.1 = k'
    · have hpk : (p.1 != k) = true := by rw [hp]; simpa using hne
      have hpe : (p.1 == k') = true := by simpa using hp
      rw [List.filter_cons, hpk]
      simp only [if_true, List.find?_cons, hpe]
    · have hpf : (p.1 == k') = false := by simpa using hp
      rw [List.filter_cons]
      split
      · simp only [List.find?_cons, hpf]; exact ih
      · simp only [List.find?_cons, hpf]; exact ih

theorem lookup_setVar_other (s : St) (k k' : List Nat) (v : V) (hne : k' ≠ k) :
    getVar (setVar s k v).scopes k' = getVar s.scopes k' := by
  unfold setVar
  cases hs : s.scopes with
  | nil => simp
  | cons sc r =>
    have hb : (k == k') = false := by
      cases h : (k == k') with
      | false => rfl
      | true => exact absurd (by simpa using h : k = k').symm hne
    simp only [getVar, lookupScope, List.find?_cons, hb, find_filter_ne sc k k' hne]

theorem setVar_scopes_ne (s : St) (k : List Nat) (v : V) (h : s.scopes ≠ []) : (setVar s k v).scopes ≠ [] := by
  unfold setVar
  cases hs : s.scopes with
  | nil => exact absurd hs h
  | cons sc r => simp

theorem foldl_setVar_other (l : List (List Nat × Nat)) (g : List Nat × Nat → V) (k' : List Nat) (hk : ∀ p ∈ l, p.1 ≠ k') (s : St) :
    getVar (l.foldl (fun (st : St) p => setVar st p.1 (g p)) s).scopes k' = getVar s.scopes k' := by
  induction l generalizing s with
  | nil => rfl
  | cons p r ih =>
    simp only [List.foldl_cons]
    rw [ih (fun q hq => hk q (List.mem_cons_of_mem _ hq)), lookup_setVar_other _ _ _ _ (fun h => hk p List.mem_cons_self h.symm)]

theorem foldl_setVar_member (l : List (List Nat × Nat)) (g : List Nat × Nat → V) (hnd : (l.map (·.1)).Nodup) (s : St) (hs : s.scopes ≠ []) :
    ∀ p ∈ l, getVar (l.foldl (fun (st : St) q => setVar st q.1 (g q)) s).scopes p.1 = some (g p) := by
  induction l generalizing s with
  | nil => intro p hp; cases hp
  | cons q r ih =>
    intro p hp
    simp only [List.map_cons, List.nodup_cons] at hnd
    simp only [List.foldl_cons]
    rcases List.mem_cons.mp hp with rfl | hp
    · rw [foldl_setVar_other r g p.1 (fun x hx hxe => hnd.1 (List.mem_map.mpr ⟨x, hx, hxe⟩))]
      obtain ⟨sc, rest, hsc⟩ : ∃ sc rest, s.scopes = sc :: rest := by
        cases h : s.scopes with
        | nil => exact absurd h hs
        | cons sc rest => exact ⟨sc, rest, rfl⟩
      exact lookup_setVar_same s sc rest hsc p.1 (g p)
    · exact ih hnd.2 _ (setVar_scopes_ne s q.1 (g q) hs) p hp

/-- **arguments are bound positionally, an omitted (or `None`) one takes the declared default**: with distinct parameter names, after
    the binding step of a call parameter `i` holds argument `i`, or its declared default when that argument is missing -/
theorem bindParams_binds (fn : Fn) (argv : List V) (s : St) (hs : s.scopes ≠ []) (hnd : fn.args.Nodup) (i : Nat) (hi : i < fn.args.length) :
    getVar (bindParams fn argv s).scopes (fn.args[i]) =
      some (match argv.getD i none with | none => fn.defs.getD i none | some x => some x) := by
  unfold bindParams
  have hmem : (fn.args[i], i) ∈ fn.args.zipIdx := by
    rw [List.mem_zipIdx_iff_getElem?]
    simp [List.getElem?_eq_getElem hi]
  have hmap : (fn.args.zipIdx.map (·.1)) = fn.args := by simp
  exact foldl_setVar_member fn.args.zipIdx (fun p => match argv.getD p.2 none with | none => fn.defs.getD p.2 none | some x => some x)
    (by rw [hmap]; exact hnd) s hs (fn.args[i], i) hmem

end Sakura.Sx
