import SakuraVerif.Model.Length
namespace Sakura.Len

/-- what may follow a part: not a digit, dot, percent or minus (in particular `^`, `+`, or end) -/
def Boundary (R : List Nat) : Prop := ∀ c r, R = c :: r → isDigit c = false ∧ c ≠ 46 ∧ c ≠ 37 ∧ c ≠ 45

/-- syntax of one part `[%][-]digits dots` -/
structure PartSyn where
  pct : Bool
  neg : Bool
  digs : List Nat
  dots : Nat

def body (p : PartSyn) (R : List Nat) : List Nat :=
  (if p.neg then [45] else []) ++ (p.digs ++ (List.replicate p.dots 46 ++ R))

def render (p : PartSyn) : List Nat :=
  (if p.pct then [37] else []) ++ ((if p.neg then [45] else []) ++ (p.digs ++ List.replicate p.dots 46))

/-- digits are digits, at most four dots, and dots only after a number (a part without digits or
    sign consumes nothing, so it cannot carry dots) -/
def PartSyn.wf (p : PartSyn) : Prop :=
  (∀ c ∈ p.digs, isDigit c = true) ∧ p.dots ≤ 4 ∧ ((p.digs = [] ∧ p.neg = false) → p.dots = 0)

theorem accDigits_append (ds : List Nat) (hd : ∀ c ∈ ds, isDigit c = true) (R : List Nat)
    (hR : ∀ c r, R = c :: r → isDigit c = false) (acc : Int) :
    accDigits acc (ds ++ R) = ((accDigits acc ds).1, R) := by
  induction ds generalizing acc with
  | nil =>
    cases R with
    | nil => simp [accDigits]
    | cons c r => simp [accDigits, hR c r rfl]
  | cons d ds ih =>
    have h1 := hd d List.mem_cons_self
    simp only [List.cons_append, accDigits, h1, if_true]
    exact ih (fun c hc => hd c (List.mem_cons_of_mem _ hc)) _

theorem takeDots_replicate (k : Nat) (hk : k ≤ 4) (R : List Nat) (hR : ∀ c r, R = c :: r → c ≠ 46) :
    takeDots (List.replicate k 46 ++ R) = (k, R) := by
  have hR' : ∀ c r, R = c :: r → (c = 46) = False := fun c r h => eq_false (hR c r h)
  match k, hk with
  | 0, _ => cases R with
    | nil => rfl
    | cons c r => simp [takeDots, hR' c r rfl]
  | 1, _ => cases R with
    | nil => rfl
    | cons c r => simp [takeDots, List.replicate, hR' c r rfl]
  | 2, _ => cases R with
    | nil => rfl
    | cons c r => simp [takeDots, List.replicate, hR' c r rfl]
  | 3, _ => cases R with
    | nil => rfl
    | cons c r => simp [takeDots, List.replicate, hR' c r rfl]
  | 4, _ => simp [takeDots, List.replicate]

/-- the integer written by `[-]digits` (or `dfl` when there are no digits) -/
def rawOf (p : PartSyn) (dfl : Int) : Int :=
  if p.digs = [] then dfl else (accDigits 0 p.digs).1 * (if p.neg then -1 else 1)

theorem head_not_digit_dots (k : Nat) (R : List Nat) (hB : Boundary R) :
    ∀ c r, List.replicate k 46 ++ R = c :: r → isDigit c = false := by
  intro c r h
  cases k with
  | zero => exact (hB c r (by simpa using h)).1
  | succ k => simp [List.replicate] at h; rw [← h.1]; decide

theorem getInt_closed (p : PartSyn) (hw : p.wf) (R : List Nat) (hB : Boundary R) (dfl : Int)
    (hne : ¬ (p.digs = [] ∧ p.neg = false)) :
    getInt dfl ((if p.neg then [45] else []) ++ (p.digs ++ (List.replicate p.dots 46 ++ R)))
      = (rawOf p dfl, List.replicate p.dots 46 ++ R) := by
  obtain ⟨hd, _, _⟩ := hw
  have hnd := head_not_digit_dots p.dots R hB
  cases hdg : p.digs with
  | nil =>
    have hneg : p.neg = true := by
      cases h : p.neg with
      | true => rfl
      | false => exact absurd ⟨hdg, h⟩ hne
    simp only [hneg, if_true, List.cons_append, List.nil_append, getInt, rawOf, hdg, cMinus]
    cases hR : List.replicate p.dots 46 ++ R with
    | nil => simp
    | cons c r => simp [hnd c r hR]
  | cons d ds =>
    have hd' : ∀ c ∈ d :: ds, isDigit c = true := by rw [← hdg]; exact hd
    have hdd := hd' d List.mem_cons_self
    have hd45 : (d = 45) = False := by
      apply eq_false; intro h; rw [h] at hdd; revert hdd; decide
    have happ := accDigits_append (d :: ds) hd' (List.replicate p.dots 46 ++ R) hnd 0
    cases hneg : p.neg with
    | true =>
      simp only [if_true, List.cons_append, List.nil_append, getInt, rawOf, cMinus, hdd]
      simp only [List.cons_append] at happ
      simp [happ, hdg, hneg, Int.mul_neg_one]
    | false =>
      simp only [Bool.false_eq_true, if_false, List.cons_append, List.nil_append, getInt, rawOf, cMinus, hd45, hdd]
      simp only [List.cons_append] at happ
      simp [happ, hdg, hneg]

theorem startsNum_true (p : PartSyn) (hw : p.wf) (hne : ¬ (p.digs = [] ∧ p.neg = false)) (T : List Nat) :
    startsNum ((if p.neg then [45] else []) ++ (p.digs ++ T)) = true := by
  cases hneg : p.neg with
  | true => simp [startsNum, cMinus]
  | false =>
    cases hdg : p.digs with
    | nil => exact absurd ⟨hdg, hneg⟩ hne
    | cons d ds =>
      have := hw.1 d (by rw [hdg]; exact List.mem_cons_self)
      simp [startsNum, this]

theorem startsNum_boundary (R : List Nat) (hB : Boundary R) : startsNum R = false := by
  cases R with
  | nil => rfl
  | cons c r =>
    have := hB c r rfl
    simp [startsNum, this.1, cMinus, this.2.2.2]

section
variable (tb dflt : Int)

/-- documented value of a part after `^`/`+` -/
def partVal (p : PartSyn) : Int :=
  if p.digs = [] ∧ p.neg = false then dflt
  else dotV p.dots (if p.pct then rawOf p 0 else (if rawOf p 4 = 0 then dflt else Int.tdiv (tb * 4) (rawOf p 4)))

/-- documented value of the head part -/
def headVal (p : PartSyn) : Int :=
  dotV p.dots (if p.digs = [] ∧ p.neg = false then dflt
    else if p.pct then rawOf p 0 else (if rawOf p 4 > 0 then Int.tdiv (tb * 4) (rawOf p 4) else 0))

theorem partBody_closed (p : PartSyn) (hw : p.wf) (R : List Nat) (hB : Boundary R) :
    partBody tb dflt p.pct (body p R) = (partVal tb dflt p, R) := by
  unfold partBody partVal body
  by_cases hne : p.digs = [] ∧ p.neg = false
  · obtain ⟨hd, hn⟩ := hne
    have hdots : p.dots = 0 := hw.2.2 ⟨hd, hn⟩
    simp [hd, hn, hdots, startsNum_boundary R hB]
  · have hs := startsNum_true p hw hne (List.replicate p.dots 46 ++ R)
    have hdot := takeDots_replicate p.dots hw.2.1 R (fun c r h => (hB c r h).2.1)
    simp only [hs, if_true, hne, if_false]
    cases hp : p.pct with
    | true => simp [partNum, getInt_closed p hw R hB 0 hne, hdot]
    | false => simp [partNum, getInt_closed p hw R hB 4 hne, hdot]

theorem body_head_not_pct (p : PartSyn) (hw : p.wf) (R : List Nat) (hB : Boundary R) :
    ∀ c r, body p R = c :: r → (c = cPct) = False := by
  intro c r h
  apply eq_false
  unfold body at h
  cases hneg : p.neg with
  | true => simp [hneg] at h; rw [← h.1]; decide
  | false =>
    simp only [hneg, Bool.false_eq_true, if_false, List.nil_append] at h
    cases hdg : p.digs with
    | cons d ds =>
      rw [hdg] at h; simp at h
      have := hw.1 d (by rw [hdg]; exact List.mem_cons_self)
      rw [← h.1]; intro h37; rw [h37] at this; revert this; decide
    | nil =>
      rw [hdg] at h; simp at h
      cases hk : p.dots with
      | zero => rw [hk] at h; simp at h; exact (hB c r h).2.2.1
      | succ k => rw [hk] at h; simp [List.replicate] at h; rw [← h.1]; decide

theorem render_eq (p : PartSyn) (R : List Nat) :
    render p ++ R = (if p.pct then [37] else []) ++ body p R := by
  simp [render, body, List.append_assoc]

theorem stripPct_render (p : PartSyn) (hw : p.wf) (R : List Nat) (hB : Boundary R) :
    stripPct (render p ++ R) = (p.pct, body p R) := by
  rw [render_eq]
  cases hp : p.pct with
  | true => simp [stripPct, cPct]
  | false =>
    simp only [Bool.false_eq_true, if_false, List.nil_append]
    cases hb : body p R with
    | nil => rfl
    | cons c r => simp [stripPct, body_head_not_pct p hw R hB c r hb]

/-- a part printed from its syntax is consumed exactly, and evaluates to its documented value -/
theorem part_closed (p : PartSyn) (hw : p.wf) (R : List Nat) (hB : Boundary R) :
    part tb dflt (render p ++ R) = (partVal tb dflt p, R) := by
  unfold part
  rw [stripPct_render p hw R hB]
  exact partBody_closed tb dflt p hw R hB

/-- the head printed from its syntax is consumed exactly, with its documented value.
    (Unlike a later part, a head without digits may carry dots: `c.` is a dotted default.) -/
theorem head_closed (p : PartSyn) (hd : ∀ c ∈ p.digs, isDigit c = true) (hk : p.dots ≤ 4)
    (hpct : (p.digs = [] ∧ p.neg = false) → p.pct = false ∨ True)
    (R : List Nat) (hB : Boundary R) :
    head tb dflt (render p ++ R) = (headVal tb dflt p, R) := by
  have hdot := takeDots_replicate p.dots hk R (fun c r h => (hB c r h).2.1)
  by_cases hne : p.digs = [] ∧ p.neg = false
  · obtain ⟨hdg, hn⟩ := hne
    -- text is [%] dots R
    have htxt : render p ++ R = (if p.pct then [37] else []) ++ (List.replicate p.dots 46 ++ R) := by
      simp [render, hdg, hn]
    have hsn : startsNum (List.replicate p.dots 46 ++ R) = false := by
      cases hk' : p.dots with
      | zero => simpa using startsNum_boundary R hB
      | succ k => simp [List.replicate, startsNum, isDigit, cMinus]
    have hstrip : stripPct (render p ++ R) = (p.pct, List.replicate p.dots 46 ++ R) := by
      rw [htxt]
      cases hp : p.pct with
      | true => simp [stripPct, cPct]
      | false =>
        simp only [Bool.false_eq_true, if_false, List.nil_append]
        cases hb : List.replicate p.dots 46 ++ R with
        | nil => rfl
        | cons c r =>
          have : (c = cPct) = False := by
            apply eq_false
            cases hk' : p.dots with
            | zero => rw [hk'] at hb; simp at hb; exact (hB c r hb).2.2.1
            | succ k => rw [hk'] at hb; simp [List.replicate] at hb; rw [← hb.1]; decide
          simp [stripPct, this]
    unfold head headVal
    rw [hstrip]
    simp [headNum, hsn, hdot, hdg, hn]
  · have hw : p.wf := ⟨hd, hk, fun h => absurd h hne⟩
    have hs := startsNum_true p hw hne (List.replicate p.dots 46 ++ R)
    unfold head headVal
    rw [stripPct_render p hw R hB]
    unfold body
    simp only [headNum, hs, if_true, hne, if_false]
    cases hp : p.pct with
    | true => simp [getInt_closed p hw R hB 0 hne, hdot]
    | false => simp [getInt_closed p hw R hB 4 hne, hdot]

/-- text of a sequence of parts, each introduced by its separator (`^` or `+`) -/
def segs : List (Nat × PartSyn) → List Nat
  | [] => []
  | (sep, p) :: rest => sep :: (render p ++ segs rest)

/-- documented value of a sequence of parts: the plain sum -/
def sumVals : List (Nat × PartSyn) → Int
  | [] => 0
  | (_, p) :: rest => partVal tb dflt p + sumVals rest

theorem segs_boundary (ps : List (Nat × PartSyn)) (hsep : ∀ sp ∈ ps, sp.1 = 94 ∨ sp.1 = 43) :
    Boundary (segs ps) := by
  intro c r h
  cases ps with
  | nil => simp [segs] at h
  | cons sp rest =>
    obtain ⟨sep, p⟩ := sp
    simp only [segs, List.cons.injEq] at h
    have := hsep (sep, p) List.mem_cons_self
    rw [← h.1]
    rcases this with h1 | h1 <;> (simp only [] at h1; rw [h1]; decide)

theorem loop_sum (ps : List (Nat × PartSyn)) (hsep : ∀ sp ∈ ps, sp.1 = 94 ∨ sp.1 = 43)
    (hw : ∀ sp ∈ ps, sp.2.wf) : ∀ (F : Nat), ps.length + 1 ≤ F →
    loop tb dflt F (segs ps) = sumVals tb dflt ps := by
  induction ps with
  | nil =>
    intro F hF
    cases F with
    | zero => omega
    | succ f => simp [segs, loop, sumVals]
  | cons sp rest ih =>
    obtain ⟨sep, p⟩ := sp
    intro F hF
    obtain ⟨f, rfl⟩ : ∃ f, F = f + 1 := ⟨F - 1, by simp at hF; omega⟩
    have hs := hsep (sep, p) List.mem_cons_self
    have hsr : ∀ sp ∈ rest, sp.1 = 94 ∨ sp.1 = 43 := fun x hx => hsep x (List.mem_cons_of_mem _ hx)
    have hwr : ∀ sp ∈ rest, sp.2.wf := fun x hx => hw x (List.mem_cons_of_mem _ hx)
    have hpc := part_closed tb dflt p (hw (sep, p) List.mem_cons_self) (segs rest) (segs_boundary rest hsr)
    have hsep' : (sep = cHat ∨ sep = cPlus) := by simpa [cHat, cPlus] using hs
    simp only [segs, loop, hsep', if_true, hpc, sumVals]
    rw [ih hsr hwr f (by simp at hF; omega)]

theorem sumVals_append (ps qs : List (Nat × PartSyn)) :
    sumVals tb dflt (ps ++ qs) = sumVals tb dflt ps + sumVals tb dflt qs := by
  induction ps with
  | nil => simp [sumVals]
  | cons sp rest ih =>
    obtain ⟨sep, p⟩ := sp
    simp only [List.cons_append, sumVals, ih]
    omega

theorem segs_append (ps qs : List (Nat × PartSyn)) : segs (ps ++ qs) = segs ps ++ segs qs := by
  induction ps with
  | nil => simp [segs]
  | cons sp rest ih => obtain ⟨sep, p⟩ := sp; simp [segs, ih]

theorem segs_length_ge (ps : List (Nat × PartSyn)) : ps.length ≤ (segs ps).length := by
  induction ps with
  | nil => simp
  | cons sp rest ih => obtain ⟨sep, p⟩ := sp; simp [segs]; omega

end
end Sakura.Len
