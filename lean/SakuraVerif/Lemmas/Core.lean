import SakuraVerif.Spec.Core
namespace Sakura.Core

/-- the current track exists -/
def St.WF (s : St) : Prop := s.cur < s.tr.length

theorem wf_init : St.init.WF := by unfold St.WF St.init; decide

theorem setT_wf (s : St) (t : Trk) (h : s.WF) : (s.setT t).WF := by
  simp [St.WF, St.setT] at *; exact h

theorem setT_t (s : St) (t : Trk) (h : s.WF) : (s.setT t).t = t := by
  simp [St.WF] at h
  simp [St.t, St.setT, h]

theorem harm_t (x : St) (hm : Option (Int × List NoteEv)) : ({ x with harm := hm } : St).t = x.t := rfl

theorem noteOn_wf (s : St) (key ln q v tm : Int) (h : s.WF) : (noteOn s key ln q v tm).2.WF := setT_wf _ _ h

theorem growTracks_len (tb : Int) (n : Nat) : ∀ f ts, n + 1 ≤ ts.length + f → n < (growTracks tb n f ts).length := by
  intro f
  induction f with
  | zero => intro ts h; simp [growTracks]; omega
  | succ f ih =>
    intro ts h
    simp only [growTracks]
    split
    · apply ih; simp; omega
    · omega

theorem iter_wf {fa fb : St → St} (ha : ∀ s, s.WF → (fa s).WF) (hb : ∀ s, s.WF → (fb s).WF) :
    ∀ n s, s.WF → (iter fa fb n s).WF := by
  intro n
  induction n using Nat.strongRecOn with
  | _ n ih =>
    intro s hs
    match n with
    | 0 => exact hs
    | 1 => exact ha s hs
    | k+2 => exact ih (k+1) (by omega) _ (hb _ (ha _ hs))

mutual
theorem sem_wf : ∀ (c : Cmd) (s : St), s.WF → (sem c s).WF
  | .note semi acc nat len q v tm o, s, h => by
    simp only [sem]
    split
    · exact setT_wf _ _ (setT_wf _ _ h)
    · exact setT_wf _ _ (setT_wf _ _ h)
  | .noteN no len q v tm, s, h => by simp only [sem]; exact setT_wf _ _ (setT_wf _ _ h)
  | .rest _ _, s, h => by simp only [sem]; exact setT_wf _ _ h
  | .setL _, s, h => by simp only [sem]; exact setT_wf _ _ h
  | .setO _, s, h => by simp only [sem]; exact setT_wf _ _ h
  | .octRel _, s, h => by simp only [sem]; exact setT_wf _ _ h
  | .setV _, s, h => by simp only [sem]; exact setT_wf _ _ h
  | .velRel _, s, h => by simp only [sem]; exact setT_wf _ _ h
  | .setQ _, s, h => by simp only [sem]; exact setT_wf _ _ h
  | .setT _, s, h => by simp only [sem]; exact setT_wf _ _ h
  | .loop n a _ b, s, h => by
    simp only [sem]
    exact iter_wf (fun s hs => semL_wf a s hs) (fun s hs => semL_wf b s hs) n s h
  | .sub body, s, h => by simp only [sem]; exact setT_wf _ _ (semL_wf body s h)
  | .div body len, s, h => by simp only [sem]; exact setT_wf _ _ (semL_wf body _ (setT_wf _ _ h))
  | .chord body len q v, s, h => by
    simp only [sem]
    have hb := semL_wf body { s with harm := some (s.t.tp, []) } h
    split
    · exact hb
    · exact setT_wf _ _ hb
  | .track n, s, h => by
    simp only [sem, St.WF]
    exact growTracks_len s.tb n (n + 1) s.tr (by omega)
  | .channel _, s, h => by simp only [sem]; exact setT_wf _ _ h
  | .voice _, s, h => by simpa [sem] using h
  | .keyShift _, s, h => by simpa [sem, St.WF] using h
  | .trackKey _, s, h => by simp only [sem]; exact setT_wf _ _ h
  | .keyFlag _ _, s, h => by simpa [sem, St.WF] using h
theorem semL_wf : ∀ (cs : List Cmd) (s : St), s.WF → (semL cs s).WF
  | [], s, h => h
  | c :: cs, s, h => by simp only [semL]; exact semL_wf cs _ (sem_wf c s h)
end

end Sakura.Core
