import SakuraVerif.Spec.Core
namespace Sakura.Core

/-- the current track exists -/
def St.WF (s : St) : Prop := s.cur < s.tr.length

theorem wf_init : St.init.WF := by unfold St.WF St.init; decide

theorem setT_wf (s : St) (t : Trk) (h : s.WF) : (s.setT t).WF := by
  simp [St.WF, St.setT] at *; exact h

theorem setT_t (s : St) (t : Trk) (h : s.WF) : (s.setT t).t = t := by
  simp [St.WF] at h
  simp [St.t, St.setT, h]

theorem harm_t (x : St) (hm : Option (Int × List NoteEv)) : ({ x with harm := hm } : St).t = x.t := rfl

theorem noteOn_wf (s : St) (key ln q v tm : Int) (h : s.WF) : (noteOn s key ln q v tm).2.WF := setT_wf _ _ h

theorem growTracks_len (tb : Int) (n : Nat) : ∀ f ts, n + 1 ≤ ts.length + f → n < (growTracks tb n f ts).length := by
  intro f
  induction f with
  | zero => intro ts h; simp [growTracks]; omega
  | succ f ih =>
    intro ts h
    simp only [growTracks]
    split
    · apply ih; simp; omega
    · omega

theorem growTracks_ge (tb : Int) (n : Nat) : ∀ f ts, ts.length ≤ (growTracks tb n f ts).length := by
  intro f
  induction f with
  | zero => intro ts; simp [growTracks]
  | succ f ih =>
    intro ts
    simp only [growTracks]
    split
    · have := ih (ts ++ [newTrk tb ts.length]); simp at this; omega
    · omega

/-- invariant of a step: the current track exists and tracks never disappear -/
def Step (s s' : St) : Prop := s'.WF ∧ s.tr.length ≤ s'.tr.length

theorem step_setT (s : St) (t : Trk) (h : s.WF) : Step s (s.setT t) :=
  ⟨setT_wf s t h, by simp [St.setT]⟩

theorem Step.trans' {a b c : St} (h1 : Step a b) (h2 : Step b c) : Step a c :=
  ⟨h2.1, Nat.le_trans h1.2 h2.2⟩

theorem iter_step {fa fb : St → St} (ha : ∀ s, s.WF → Step s (fa s)) (hb : ∀ s, s.WF → Step s (fb s)) :
    ∀ n s, s.WF → Step s (iter fa fb n s) := by
  intro n
  induction n using Nat.strongRecOn with
  | _ n ih =>
    intro s hs
    match n with
    | 0 => exact ⟨hs, Nat.le_refl _⟩
    | 1 => exact ha s hs
    | k+2 =>
      have h1 := ha s hs
      have h2 := hb _ h1.1
      exact (h1.trans' h2).trans' (ih (k+1) (by omega) _ h2.1)

mutual
theorem sem_step : ∀ (c : Cmd) (s : St), s.WF → Step s (sem c s)
  | .note semi acc nat len q v tm o, s, h => by
    simp only [sem]
    split
    · exact ⟨setT_wf _ _ (setT_wf _ _ h), by simp [St.setT, noteOn]⟩
    · exact ⟨setT_wf _ _ (setT_wf _ _ h), by simp [St.setT, noteOn]⟩
  | .noteN no len q v tm, s, h => by
    simp only [sem]; exact ⟨setT_wf _ _ (setT_wf _ _ h), by simp [St.setT, noteOn]⟩
  | .rest _ _, s, h => by simp only [sem]; exact step_setT _ _ h
  | .setL _, s, h => by simp only [sem]; exact step_setT _ _ h
  | .setO _, s, h => by simp only [sem]; exact step_setT _ _ h
  | .octRel _, s, h => by simp only [sem]; exact step_setT _ _ h
  | .setV _, s, h => by simp only [sem]; exact step_setT _ _ h
  | .velRel _, s, h => by simp only [sem]; exact step_setT _ _ h
  | .setQ _, s, h => by simp only [sem]; exact step_setT _ _ h
  | .setT _, s, h => by simp only [sem]; exact step_setT _ _ h
  | .loop n a _ b, s, h => by
    simp only [sem]
    exact iter_step (fun s hs => semL_step a s hs) (fun s hs => semL_step b s hs) n s h
  | .sub body, s, h => by
    simp only [sem]
    have hb := semL_step body s h
    exact hb.trans' (step_setT _ _ hb.1)
  | .div body len, s, h => by
    simp only [sem]
    have h1 := step_setT s { s.t with l := if countElems body > 0 then tdiv (lenOpt s.tb s.t.l len) (countElems body) else 0 } h
    have h2 := semL_step body _ h1.1
    exact (h1.trans' h2).trans' (step_setT _ _ h2.1)
  | .chord body len q v, s, h => by
    simp only [sem]
    have hb : Step s (semL body { s with harm := some (s.t.tp, []) }) := semL_step body { s with harm := some (s.t.tp, []) } h
    split
    · exact hb
    · exact hb.trans' ⟨setT_wf _ _ hb.1, by simp [St.setT]⟩
  | .track n, s, h => by
    simp only [sem]
    exact ⟨growTracks_len s.tb n (n + 1) s.tr (by omega), growTracks_ge s.tb n (n + 1) s.tr⟩
  | .channel _, s, h => by simp only [sem]; exact step_setT _ _ h
  | .voice _, s, h => by simp only [sem]; exact ⟨h, Nat.le_refl _⟩
  | .keyShift _, s, h => by simp only [sem]; exact ⟨h, Nat.le_refl _⟩
  | .trackKey _, s, h => by simp only [sem]; exact step_setT _ _ h
  | .keyFlag _ _, s, h => by simp only [sem]; exact ⟨h, Nat.le_refl _⟩
  | .trackSync, s, h => by
    simp only [sem]
    exact ⟨by simpa [St.WF] using h, by simp⟩
  | .play parts, s, h => by
    simp only [sem]
    have hp := playParts_step parts 1 s.t.tp s.t.tp s h
    refine ⟨?_, by simpa using hp.2⟩
    have : s.cur < s.tr.length := h
    simp only [St.WF, List.length_map]
    exact Nat.lt_of_lt_of_le this hp.2
theorem playParts_step : ∀ (ps : List (List Cmd)) (i : Nat) (start last : Int) (s : St), s.WF →
    Step s (playParts ps i start last s).2
  | [], _, _, _, s, h => ⟨h, Nat.le_refl _⟩
  | p :: ps, i, start, last, s, h => by
    simp only [playParts]
    have h1 : Step s { s with tr := growTracks s.tb i (i + 1) s.tr, cur := i } :=
      ⟨growTracks_len s.tb i (i + 1) s.tr (by omega), growTracks_ge s.tb i (i + 1) s.tr⟩
    have h2 := step_setT _ { ({ s with tr := growTracks s.tb i (i + 1) s.tr, cur := i } : St).t with tp := start } h1.1
    have h3 := semL_step p _ h2.1
    exact ((h1.trans' h2).trans' h3).trans' (playParts_step ps (i + 1) start _ _ h3.1)
theorem semL_step : ∀ (cs : List Cmd) (s : St), s.WF → Step s (semL cs s)
  | [], s, h => ⟨h, Nat.le_refl _⟩
  | c :: cs, s, h => by
    simp only [semL]
    have h1 := sem_step c s h
    exact h1.trans' (semL_step cs _ h1.1)
end

theorem sem_wf (c : Cmd) (s : St) (h : s.WF) : (sem c s).WF := (sem_step c s h).1
theorem semL_wf (cs : List Cmd) (s : St) (h : s.WF) : (semL cs s).WF := (semL_step cs s h).1

end Sakura.Core
