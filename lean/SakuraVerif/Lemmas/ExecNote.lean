import SakuraVerif.Lemmas.ExecTie
/-! # A note moves the pointer by its full length, whatever its gate (C03 on the literal runner model)

`exec_note` outside a chord: the time pointer after the note is the pointer before it plus the value of the note's length text
(or the default length) — independent of the gate rate, of the Random settings, of whether the note is written, collected into a
tied group or closes one. -/
namespace Sakura.Ex2
open Sakura Sakura.Lx

theorem drawIf_tracks (w v : Int) (s : Song) : (drawIf w v s).2.tracks = s.tracks ∧ (drawIf w v s).2.cur = s.cur ∧ (drawIf w v s).2.tb = s.tb := by
  unfold drawIf; split <;> exact ⟨rfl, rfl, rfl⟩

theorem noteDraws_tracks (s : Song) (k v t q : Int) :
    (noteDraws s k v t q).2.tracks = s.tracks ∧ (noteDraws s k v t q).2.cur = s.cur ∧ (noteDraws s k v t q).2.tb = s.tb := by
  unfold noteDraws
  simp only []
  split
  · refine ⟨?_, ?_, ?_⟩
    · rw [(drawIf_tracks _ _ _).1, (drawIf_tracks _ _ _).1, (drawIf_tracks _ _ _).1]
    · rw [(drawIf_tracks _ _ _).2.1, (drawIf_tracks _ _ _).2.1, (drawIf_tracks _ _ _).2.1]
    · rw [(drawIf_tracks _ _ _).2.2, (drawIf_tracks _ _ _).2.2, (drawIf_tracks _ _ _).2.2]
  · refine ⟨?_, ?_, ?_⟩
    · rw [(drawIf_tracks _ _ _).1, (drawIf_tracks _ _ _).1, (drawIf_tracks _ _ _).1]
    · rw [(drawIf_tracks _ _ _).2.1, (drawIf_tracks _ _ _).2.1, (drawIf_tracks _ _ _).2.1]
    · rw [(drawIf_tracks _ _ _).2.2, (drawIf_tracks _ _ _).2.2, (drawIf_tracks _ _ _).2.2]

theorem advance_timepos (s : Song) (tp : Int) (hc : s.cur < s.tracks.length) : (advance s tp).t.timepos = tp := by
  unfold advance
  simp only []
  have h2 : (s.setT { s.t with timepos := tp }).cur < (s.setT { s.t with timepos := tp }).tracks.length := by simpa [Song.setT] using hc
  split
  · show (Song.setT _ _).t.timepos = tp
    rw [setT_t' _ _ h2, setT_t' _ _ hc]
  · rw [setT_t' _ _ hc]

theorem emitNote_timepos (s : Song) (ev : Event) (sl : Int) (hh : s.harmonyFlag = false) (hc : s.cur < s.tracks.length) :
    (emitNote s ev sl).t.timepos = s.t.timepos := by
  unfold emitNote
  simp only [hh, Bool.false_eq_true, if_false]
  split
  · rw [setT_t' _ _ hc]
  · split
    · rw [setT_t' _ _ hc]
    · rw [setT_t' _ _ hc]

/-- **the pointer advances by the note's full length**, regardless of gate, velocity, timing, Random settings and ties -/
theorem execNote_advances (s : Song) (tk : Tok) (hh : s.harmonyFlag = false) (hc : s.cur < s.tracks.length) (h8 : 8 ≤ tk.data.length) :
    (execNote s tk).t.timepos = s.t.timepos + Len.calcLength s.tb s.t.length (dataS tk.data 2) := by
  unfold execNote
  simp only [if_neg (show ¬ tk.data.length < 8 by omega)]
  rw [emitNote_timepos _ _ _ (by rw [advance_harmony, noteDraws_harmony, hh]) (adv_draw_ok s _ _ _ _ _ hc)]
  apply advance_timepos
  rw [(noteDraws_tracks s _ _ _ _).1, (noteDraws_tracks s _ _ _ _).2.1]
  exact hc

end Sakura.Ex2
