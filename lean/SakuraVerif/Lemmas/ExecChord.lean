import SakuraVerif.Lemmas.ExecInv
/-! # The chord laws on the literal runner model (`exec_harmony(…, false)`)

When a chord is closed, every note collected since it was opened is written at the tick where the chord was opened, with the
chord's length × gate as its duration (when a gate is in force), and the time pointer stands one chord length after that tick —
whatever the members were (any number, any lengths and gates of their own). -/
namespace Sakura.Ex2
open Sakura Sakura.Lx

/-- the chord's gate rate: its own (second argument) or the track's -/
def chordQ (s : Song) (tk : Tok) : Int := if dataI tk.data 1 < 0 then s.t.qlen else dataI tk.data 1
/-- the chord's length -/
def chordLen (s : Song) (tk : Tok) : Int := Len.calcLength s.tb s.t.length (dataS tk.data 0)

/-- what closing the chord makes of a collected note -/
def chordFixEv (s : Song) (tk : Tok) (e : Event) : Event :=
  let e := { e with time := s.harmonyTime }
  let e := if chordQ s tk ≠ 0 then { e with v2 := Int.tdiv (chordLen s tk * chordQ s tk) 100 } else e
  match tk.data.getD 2 .none with
  | .none => e
  | v => if v.toI < 0 then e else { e with v3 := v.toI }

theorem execHarmonyEnd_eq (s : Song) (tk : Tok) (hf : s.harmonyFlag = true) :
    execHarmonyEnd s tk =
      { (s.setT { s.t with events := s.t.events ++ s.harmonyEvents.reverse.map (chordFixEv s tk), timepos := s.harmonyTime + chordLen s tk }) with
        harmonyFlag := false, harmonyEvents := [] } := by
  unfold execHarmonyEnd
  simp only [hf, not_true_eq_false, if_false]
  rfl

theorem chordFixEv_time (s : Song) (tk : Tok) (e : Event) : (chordFixEv s tk e).time = s.harmonyTime := by
  unfold chordFixEv
  simp only []
  split
  · split <;> rfl
  · split
    · split <;> rfl
    · split <;> rfl

theorem chordFixEv_gate (s : Song) (tk : Tok) (e : Event) (hq : chordQ s tk ≠ 0) :
    (chordFixEv s tk e).v2 = Int.tdiv (chordLen s tk * chordQ s tk) 100 := by
  unfold chordFixEv
  simp only [hq, ne_eq, not_false_eq_true, if_true]
  split
  · rfl
  · split <;> rfl

theorem chordFixEv_keeps (s : Song) (tk : Tok) (e : Event) :
    (chordFixEv s tk e).kind = e.kind ∧ (chordFixEv s tk e).ch = e.ch ∧ (chordFixEv s tk e).v1 = e.v1 := by
  unfold chordFixEv
  simp only []
  split
  · split <;> exact ⟨rfl, rfl, rfl⟩
  · split
    · split <;> exact ⟨rfl, rfl, rfl⟩
    · split <;> exact ⟨rfl, rfl, rfl⟩

/-- **the chord laws**: closing a chord leaves chord mode, writes every collected note (same kind, channel and key, one event each) at
    the chord's tick with length × gate as its duration, and puts the pointer one chord length after that tick -/
theorem execHarmonyEnd_laws (s : Song) (tk : Tok) (hf : s.harmonyFlag = true) (hc : s.cur < s.tracks.length) :
    (execHarmonyEnd s tk).harmonyFlag = false ∧ (execHarmonyEnd s tk).harmonyEvents = [] ∧
    (execHarmonyEnd s tk).t.timepos = s.harmonyTime + chordLen s tk ∧
    ∃ evs, (execHarmonyEnd s tk).t.events = s.t.events ++ evs ∧ evs.length = s.harmonyEvents.length ∧
      ∀ e ∈ evs, e.time = s.harmonyTime ∧ (chordQ s tk ≠ 0 → e.v2 = Int.tdiv (chordLen s tk * chordQ s tk) 100) := by
  rw [execHarmonyEnd_eq s tk hf]
  refine ⟨rfl, rfl, ?_, ?_⟩
  · show (Song.setT _ _).t.timepos = _
    rw [setT_t' _ _ hc]
  · refine ⟨s.harmonyEvents.reverse.map (chordFixEv s tk), ?_, by simp, ?_⟩
    · show (Song.setT _ _).t.events = _
      rw [setT_t' _ _ hc]
    · intro e he
      obtain ⟨e0, _, rfl⟩ := List.mem_map.mp he
      exact ⟨chordFixEv_time s tk e0, chordFixEv_gate s tk e0⟩

end Sakura.Ex2
