import SakuraVerif.Model.LoopMachine
namespace Sakura.Loop

/-- segment `seg` sits at position `p` of `toks` -/
def At {α} (toks : List (Tok α)) (p : Nat) (seg : List (Tok α)) : Prop :=
  ∃ tail, toks.drop p = seg ++ tail

theorem At.split {α} {toks : List (Tok α)} {p a b} (h : At toks p (a ++ b)) :
    At toks p a ∧ At toks (p + a.length) b := by
  obtain ⟨tail, ht⟩ := h
  refine ⟨⟨b ++ tail, by rw [ht, List.append_assoc]⟩, ⟨tail, ?_⟩⟩
  have : toks.drop (p + a.length) = (toks.drop p).drop a.length := by
    rw [List.drop_drop]
  rw [this, ht, List.append_assoc, List.drop_left]

theorem At.head {α} {toks : List (Tok α)} {p x r} (h : At toks p (x :: r)) : toks[p]? = some x := by
  obtain ⟨tail, ht⟩ := h
  have : (toks.drop p)[0]? = some x := by rw [ht]; rfl
  simpa using this

theorem At.tail {α} {toks : List (Tok α)} {p x r} (h : At toks p (x :: r)) : At toks (p+1) r := by
  have := At.split (a := [x]) (b := r) (by simpa using h)
  simpa using this.2

-- the scan passes over balanced segments
mutual
theorem scan_tree {α} (t : Tree α) (rest : List (Tok α)) (i d : Nat) :
    scanEnd (flatten t ++ rest) i d = scanEnd rest (i + (flatten t).length) d := by
  cases t with
  | leaf a => simp [flatten, scanEnd]
  | loop n b hb k =>
    cases hb with
    | false =>
      simp only [flatten, List.cons_append, List.nil_append, List.append_assoc, scanEnd, Bool.false_eq_true, if_false]
      rw [scan_trees b]
      simp only [scanEnd]
      simp [Nat.add_assoc, Nat.add_comm, Nat.add_left_comm]
    | true =>
      simp only [flatten, List.cons_append, List.nil_append, List.append_assoc, scanEnd, if_true]
      rw [scan_trees b]
      simp only [scanEnd]
      rw [scan_trees k]
      simp only [scanEnd]
      simp [Nat.add_assoc, Nat.add_comm, Nat.add_left_comm]
theorem scan_trees {α} (ts : List (Tree α)) (rest : List (Tok α)) (i d : Nat) :
    scanEnd (flattenL ts ++ rest) i d = scanEnd rest (i + (flattenL ts).length) d := by
  cases ts with
  | nil => simp [flattenL]
  | cons t ts =>
    simp only [flattenL, List.append_assoc]
    rw [scan_tree t, scan_trees ts]
    simp [Nat.add_assoc]
end

end Sakura.Loop

namespace Sakura.Loop

/-- iteration invariant of one loop, with the body/break-part behaviour abstracted -/
theorem loop_iter {α σ} (act : α → σ → σ) (toks : List (Tok α)) (fa fk : σ → σ)
    (S B E n : Nat) (hb : Bool) (st : List Item)
    (Ha : ∀ st s, Reach act toks (S, st, s) (B, st, fa s))
    (Hk : hb = true → ∀ st s, Reach act toks (B+1, st, s) (E, st, fk s))
    (hB : hb = true → toks[B]? = some .lbreak)
    (hE : toks[E]? = some .lend)
    (hnb : hb = false → E = B ∧ fk = id)
    (hscan : hb = true → scanEnd (toks.drop B) B 0 = E + 1) :
    ∀ m i e s, i + (m+1) = n → (e = 0 ∨ e = E+1) →
      Reach act toks (S, ⟨S, e, i, n⟩ :: st, s) (E+1, st, iter fa fk (m+1) s) := by
  intro m
  induction m with
  | zero =>
    intro i e s hin he
    refine Reach.trans (Ha _ s) ?_
    cases hb with
    | true =>
      apply Reach.one
      have hidx : i = n - 1 := by omega
      have he' : (if e = 0 then scanEnd (toks.drop B) B 0 else e) = E + 1 := by
        rcases he with h | h
        · simp [h, hscan rfl]
        · simp [h]
      have hpos : n > 0 := by omega
      simp only [step, hB rfl, hidx, hpos, and_self, if_true, he']
      simp [iter]
    | false =>
      obtain ⟨hEB, hfk⟩ := hnb rfl
      subst hEB
      apply Reach.one
      have : ¬ (i + 1 < n) := by omega
      simp only [step, hE, this, if_false]
      simp [iter]
  | succ m ih =>
    intro i e s hin he
    refine Reach.trans (Ha _ s) ?_
    have hlt : i + 1 < n := by omega
    cases hb with
    | true =>
      have hne : ¬ (n > 0 ∧ i = n - 1) := by omega
      have s1 : Reach act toks (B, ⟨S, e, i, n⟩ :: st, fa s) (B+1, ⟨S, e, i, n⟩ :: st, fa s) := by
        apply Reach.one; simp only [step, hB rfl, hne, if_false]
      refine Reach.trans s1 (Reach.trans (Hk rfl _ _) ?_)
      have s2 : Reach act toks (E, ⟨S, e, i, n⟩ :: st, fk (fa s)) (S, ⟨S, E+1, i+1, n⟩ :: st, fk (fa s)) := by
        apply Reach.one; simp only [step, hE, hlt, if_true]
      refine Reach.trans s2 ?_
      have := ih (i+1) (E+1) (fk (fa s)) (by omega) (Or.inr rfl)
      simpa [iter] using this
    | false =>
      obtain ⟨hEB, hfk⟩ := hnb rfl
      subst hEB
      have s2 : Reach act toks (E, ⟨S, e, i, n⟩ :: st, fa s) (S, ⟨S, E+1, i+1, n⟩ :: st, fa s) := by
        apply Reach.one; simp only [step, hE, hlt, if_true]
      refine Reach.trans s2 ?_
      have := ih (i+1) (E+1) (fa s) (by omega) (Or.inr rfl)
      simpa [iter, hfk] using this

end Sakura.Loop

namespace Sakura.Loop

theorem getElem?_cast {β} {l : List β} {a b : Nat} {x : Option β} (h : l[a]? = x) (hab : a = b) : l[b]? = x := hab ▸ h
theorem Reach.cast_pos {α σ} {act : α → σ → σ} {toks} {c : Cfg σ} {p p' : Nat} {st} {s : σ}
    (h : Reach act toks c (p, st, s)) (hp : p = p') : Reach act toks c (p', st, s) := hp ▸ h

theorem runL_nil {α σ} (act : α → σ → σ) : runL act ([] : List (Tree α)) = id := by
  funext s; simp [runL]

mutual
theorem run_tree {α σ} (act : α → σ → σ) (toks : List (Tok α)) (t : Tree α) (hw : wf t = true)
    (p : Nat) (st : List Item) (s : σ) (h : At toks p (flatten t)) :
    Reach act toks (p, st, s) (p + (flatten t).length, st, run act t s) := by
  cases t with
  | leaf a =>
    apply Reach.one
    have := At.head (by simpa [flatten] using h : At toks p (Tok.other a :: []))
    simp [step, this, flatten, run]
  | loop n b hb k =>
    simp only [wf, Bool.and_eq_true, decide_eq_true_eq, Bool.or_eq_true] at hw
    obtain ⟨⟨⟨hn, hwb⟩, hwk⟩, hbk⟩ := hw
    simp only [flatten, List.cons_append, List.nil_append] at h
    have h0 := At.head h
    have h1 := At.tail h
    obtain ⟨hA, h2⟩ := At.split h1
    obtain ⟨hBp, hEnd⟩ := At.split h2
    have hE := At.head hEnd
    -- first step: LoopBegin
    have s0 : Reach act toks (p, st, s) (p+1, ⟨p+1, 0, 0, n⟩ :: st, s) := by
      apply Reach.one; simp [step, h0]
    refine Reach.trans s0 ?_
    have Ha : ∀ st s, Reach act toks (p+1, st, s) (p+1 + (flattenL b).length, st, runL act b s) :=
      fun st s => run_trees act toks b hwb (p+1) st s hA
    cases hb with
    | true =>
      simp only [if_true, List.cons_append, List.nil_append] at hBp hE hEnd h2
      have hB := At.head hBp
      have hK := At.tail hBp
      have Hk : ∀ st s, Reach act toks (p+1 + (flattenL b).length + 1, st, s)
          (p+1 + (flattenL b).length + 1 + (flattenL k).length, st, runL act k s) :=
        fun st s => run_trees act toks k hwk _ st s hK
      have hscan : scanEnd (toks.drop (p+1 + (flattenL b).length)) (p+1 + (flattenL b).length) 0
          = p+1 + (flattenL b).length + 1 + (flattenL k).length + 1 := by
        obtain ⟨tail, ht⟩ := h2
        rw [ht]
        simp only [List.cons_append, List.append_assoc, scanEnd]
        rw [scan_trees k]
        simp [scanEnd]
      have hlen : (Tok.lbreak :: flattenL k).length = (flattenL k).length + 1 := by simp
      rw [hlen] at hE
      have key := loop_iter act toks (runL act b) (runL act k) (p+1) (p+1 + (flattenL b).length)
        (p+1 + (flattenL b).length + 1 + (flattenL k).length) n true st Ha
        (fun _ => Hk) (fun _ => hB) (getElem?_cast hE (by omega)) (by intro h; cases h) (fun _ => hscan)
        (n-1) 0 0 s (by omega) (Or.inl rfl)
      have hn1 : n - 1 + 1 = n := by omega
      rw [hn1] at key
      simp only [flatten, run]
      exact Reach.cast_pos key (by simp; omega)
    | false =>
      have hk : k = [] := by
        cases hbk with
        | inl h => cases h
        | inr h => cases k with
          | nil => rfl
          | cons _ _ => simp at h
      subst hk
      simp only [Bool.false_eq_true, if_false, List.nil_append, List.length_nil, Nat.add_zero] at hE hEnd hBp h2
      have key := loop_iter act toks (runL act b) (runL act []) (p+1) (p+1 + (flattenL b).length)
        (p+1 + (flattenL b).length) n false st Ha
        (by intro h; cases h) (by intro h; cases h) hE (fun _ => ⟨rfl, runL_nil act⟩) (by intro h; cases h)
        (n-1) 0 0 s (by omega) (Or.inl rfl)
      have hn1 : n - 1 + 1 = n := by omega
      rw [hn1] at key
      simp only [flatten, run]
      exact Reach.cast_pos key (by simp; omega)
theorem run_trees {α σ} (act : α → σ → σ) (toks : List (Tok α)) (ts : List (Tree α)) (hw : wfL ts = true)
    (p : Nat) (st : List Item) (s : σ) (h : At toks p (flattenL ts)) :
    Reach act toks (p, st, s) (p + (flattenL ts).length, st, runL act ts s) := by
  cases ts with
  | nil => simpa [flattenL, runL] using Reach.refl _
  | cons t ts =>
    simp only [wfL, Bool.and_eq_true] at hw
    simp only [flattenL] at h
    obtain ⟨h1, h2⟩ := At.split h
    have r1 := run_tree act toks t hw.1 p st s h1
    have r2 := run_trees act toks ts hw.2 (p + (flatten t).length) st (run act t s) h2
    simpa [flattenL, runL, Nat.add_assoc] using Reach.trans r1 r2
end

/-- C05 (mechanism model): the pc/stack machine run on the flattened program from the empty
    stack halts at the end with the state of the structurally repeated program. -/
theorem machine_refines_tree {α σ} (act : α → σ → σ) (ts : List (Tree α)) (hw : wfL ts = true) (s : σ) :
    Reach act (flattenL ts) (0, [], s) ((flattenL ts).length, [], runL act ts s) := by
  have := run_trees act (flattenL ts) ts hw 0 [] s ⟨[], by simp⟩
  simpa using this

#print axioms machine_refines_tree
end Sakura.Loop
