import SakuraVerif.Lemmas.Core
/-! # A leading rest shifts everything by its length and changes nothing else (C14, on `Spec.Core.sem`)

`shSt L s` is the state `s` moved `L` ticks later: every track's pointer, every written note, the tick and the collected notes of an
open chord.  Every command of the core language other than `TR` and `PLAY` (which create tracks at tick 0) commutes with that move —
nothing in the language reads the absolute position.  Hence a program run after a rest of length `L` writes the notes it writes
without the rest, each `L` ticks later, and ends with the pointers `L` ticks later. -/
namespace Sakura.Core
open Sakura

def shEv (L : Int) (e : NoteEv) : NoteEv := { e with time := e.time + L }
def shTrk (L : Int) (t : Trk) : Trk := { t with tp := t.tp + L, ev := t.ev.map (shEv L) }
def shSt (L : Int) (s : St) : St :=
  { s with tr := s.tr.map (shTrk L), harm := s.harm.map (fun p => (p.1 + L, p.2.map (shEv L))) }

mutual
/-- no `TR` and no `PLAY`, at any depth -/
def okC : Cmd → Bool
  | .track _ => false
  | .play _ => false
  | .loop _ a _ b => okL a && okL b
  | .sub b => okL b
  | .div b _ => okL b
  | .chord b _ _ _ => okL b
  | _ => true
def okL : List Cmd → Bool
  | [] => true
  | c :: cs => okC c && okL cs
end

theorem shSt_wf (L : Int) (s : St) (h : s.WF) : (shSt L s).WF := by
  unfold St.WF shSt at *; simpa using h

theorem shSt_t (L : Int) (s : St) (h : s.WF) : (shSt L s).t = shTrk L s.t := by
  unfold St.WF at h
  simp [St.t, shSt, List.getD_eq_getElem?_getD, h]

theorem shSt_setT (L : Int) (s : St) (t' : Trk) : (shSt L s).setT (shTrk L t') = shSt L (s.setT t') := by
  simp [St.setT, shSt, List.map_set]

@[simp] theorem shSt_tb (L : Int) (s : St) : (shSt L s).tb = s.tb := rfl
@[simp] theorem shSt_keyflag (L : Int) (s : St) : (shSt L s).keyflag = s.keyflag := rfl
@[simp] theorem shSt_kshift (L : Int) (s : St) : (shSt L s).kshift = s.kshift := rfl
@[simp] theorem shSt_vAdd (L : Int) (s : St) : (shSt L s).vAdd = s.vAdd := rfl
@[simp] theorem shSt_cur (L : Int) (s : St) : (shSt L s).cur = s.cur := rfl

theorem noteOn_sh (L : Int) (s : St) (key ln q v tm : Int) (h : s.WF) :
    noteOn (shSt L s) key ln q v tm = (shEv L (noteOn s key ln q v tm).1, shSt L (noteOn s key ln q v tm).2) := by
  unfold noteOn
  simp only [shSt_t L s h]
  refine Prod.ext ?_ ?_
  · simp only [shTrk, shEv]
    congr 1
    omega
  · simp only
    rw [← shSt_setT]
    congr 1
    simp only [shTrk]
    congr 1
    omega

theorem chordFix_sh (L ht ln qq : Int) (v : Option Int) (e : NoteEv) :
    chordFix (ht + L) ln qq v (shEv L e) = shEv L (chordFix ht ln qq v e) := by
  unfold chordFix shEv
  simp only []
  split
  · split
    · split <;> rfl
    · split <;> rfl
  · split <;> rfl

theorem iter_sh (L : Int) (fa fb : St → St) (ha : ∀ s, s.WF → fa (shSt L s) = shSt L (fa s)) (hb : ∀ s, s.WF → fb (shSt L s) = shSt L (fb s))
    (wa : ∀ s, s.WF → (fa s).WF) (wb : ∀ s, s.WF → (fb s).WF) :
    ∀ (n : Nat) (s : St), s.WF → iter fa fb n (shSt L s) = shSt L (iter fa fb n s)
  | 0, s, _ => rfl
  | 1, s, h => by simp only [iter]; exact ha s h
  | k+2, s, h => by
    simp only [iter]
    rw [ha s h, hb (fa s) (wa s h)]
    exact iter_sh L fa fb ha hb wa wb (k+1) (fb (fa s)) (wb _ (wa s h))

theorem shSt_harm_none (L : Int) (s : St) (h : s.harm = none) : (shSt L s).harm = none := by simp [shSt, h]
theorem shSt_harm_some (L : Int) (s : St) (ht : Int) (evs : List NoteEv) (h : s.harm = some (ht, evs)) :
    (shSt L s).harm = some (ht + L, evs.map (shEv L)) := by simp [shSt, h]

theorem shSt_with_harm (L : Int) (s : St) (hm : Option (Int × List NoteEv)) :
    ({ shSt L s with harm := hm.map (fun p => (p.1 + L, p.2.map (shEv L))) } : St) = shSt L { s with harm := hm } := rfl

mutual
theorem sem_sh (L : Int) : ∀ (c : Cmd) (s : St), okC c = true → s.WF → sem c (shSt L s) = shSt L (sem c s)
  | .note semi acc nat len q v tm o, s, _, h => by
    simp only [sem, shSt_t L s h, shSt_tb, shSt_keyflag, shSt_kshift]
    simp only [shTrk]
    rw [noteOn_sh L s _ _ _ _ _ h]
    generalize hr : noteOn s _ _ _ _ _ = r
    have hw : r.2.WF := by rw [← hr]; exact noteOn_wf _ _ _ _ _ _ h
    cases hh : s.harm with
    | none =>
      rw [shSt_harm_none L s hh]
      simp only []
      rw [shSt_t L r.2 hw, ← shSt_setT]
      congr 1
      simp [shTrk]
    | some p =>
      obtain ⟨ht, evs⟩ := p
      rw [shSt_harm_some L s ht evs hh]
      simp only []
      rw [shSt_t L r.2 hw]
      show _ = ({ shSt L (r.2.setT { r.2.t with tp := ht }) with harm := some (ht + L, (evs ++ [r.1]).map (shEv L)) } : St)
      rw [← shSt_setT]
      simp [shTrk, List.map_append]
  | .noteN no len q v tm, s, _, h => by
    simp only [sem, shSt_t L s h, shSt_tb, shSt_kshift]
    simp only [shTrk]
    rw [noteOn_sh L s _ _ _ _ _ h]
    simp only []
    rw [shSt_t L _ (noteOn_wf s _ _ _ _ _ h), ← shSt_setT]
    congr 1
    simp [shTrk]
  | .rest len dir, s, _, h => by
    simp only [sem, shSt_t L s h, shSt_tb]
    rw [← shSt_setT]; congr 1; simp only [shTrk]; congr 1; omega
  | .setL len, s, _, h => by simp only [sem, shSt_t L s h, shSt_tb]; exact shSt_setT L s { s.t with l := lenOpt s.tb s.tb len }
  | .setO n, s, _, h => by simp only [sem, shSt_t L s h]; exact shSt_setT L s { s.t with o := clamp 0 n 10 }
  | .octRel d, s, _, h => by simp only [sem, shSt_t L s h]; exact shSt_setT L s { s.t with o := clamp 0 (s.t.o + d) 10 }
  | .setV n, s, _, h => by simp only [sem, shSt_t L s h]; exact shSt_setT L s { s.t with v := clamp 0 n 127 }
  | .velRel d, s, _, h => by simp only [sem, shSt_t L s h, shSt_vAdd]; exact shSt_setT L s { s.t with v := clamp 0 (s.t.v + s.vAdd * d) 127 }
  | .setQ n, s, _, h => by simp only [sem, shSt_t L s h]; exact shSt_setT L s { s.t with q := clamp 0 n 100 }
  | .setT n, s, _, h => by simp only [sem, shSt_t L s h]; exact shSt_setT L s { s.t with t := n }
  | .channel n, s, _, h => by simp only [sem, shSt_t L s h]; exact shSt_setT L s { s.t with ch := clamp 1 n 16 - 1 }
  | .trackKey k, s, _, h => by simp only [sem, shSt_t L s h]; exact shSt_setT L s { s.t with key := k }
  | .voice _, s, _, _ => rfl
  | .keyShift k, s, _, _ => rfl
  | .keyFlag flag semis, s, _, _ => rfl
  | .trackSync, s, _, h => by
    simp only [sem, shSt_t L s h]
    simp [shSt, shTrk, List.map_map, Function.comp_def]
  | .track n, s, hk, _ => by simp [okC] at hk
  | .play ps, s, hk, _ => by simp [okC] at hk
  | .loop n a hb b, s, hk, h => by
    simp only [okC, Bool.and_eq_true] at hk
    simp only [sem]
    exact iter_sh L (semL a) (semL b) (fun s hs => semL_sh L a s hk.1 hs) (fun s hs => semL_sh L b s hk.2 hs)
      (fun s hs => semL_wf a s hs) (fun s hs => semL_wf b s hs) n s h
  | .sub body, s, hk, h => by
    simp only [okC] at hk
    simp only [sem, shSt_t L s h]
    rw [semL_sh L body s hk h, shSt_t L _ (semL_wf body s h), ← shSt_setT]
    congr 1
  | .div body len, s, hk, h => by
    simp only [okC] at hk
    simp only [sem, shSt_t L s h, shSt_tb]
    have e0 : (shSt L s).setT { shTrk L s.t with l := if countElems body > 0 then tdiv (lenOpt s.tb (shTrk L s.t).l len) (countElems body) else 0 }
        = shSt L (s.setT { s.t with l := if countElems body > 0 then tdiv (lenOpt s.tb s.t.l len) (countElems body) else 0 }) :=
      shSt_setT L s { s.t with l := if countElems body > 0 then tdiv (lenOpt s.tb s.t.l len) (countElems body) else 0 }
    rw [e0, semL_sh L body _ hk (setT_wf _ _ h), shSt_t L _ (semL_wf body _ (setT_wf _ _ h)), ← shSt_setT]
    congr 1
    simp only [shTrk]
    congr 1
    omega
  | .chord body len q v, s, hk, h => by
    simp only [okC] at hk
    simp only [sem, shSt_t L s h]
    have e0 : ({ shSt L s with harm := some ((shTrk L s.t).tp, []) } : St) = shSt L { s with harm := some (s.t.tp, []) } := rfl
    have hw0 : ({ s with harm := some (s.t.tp, []) } : St).WF := h
    rw [e0, semL_sh L body _ hk hw0]
    generalize hs1 : semL body { s with harm := some (s.t.tp, []) } = s1
    have hw1 : s1.WF := by rw [← hs1]; exact semL_wf body _ hw0
    cases hh : s1.harm with
    | none =>
      rw [shSt_harm_none L s1 hh]
    | some p =>
      obtain ⟨ht, evs⟩ := p
      rw [shSt_harm_some L s1 ht evs hh]
      simp only [shSt_t L s1 hw1, shSt_tb]
      have hm : ∀ ln qq : Int, (evs.map (shEv L)).reverse.map (chordFix (ht + L) ln qq v) = (evs.reverse.map (chordFix ht ln qq v)).map (shEv L) := by
        intro ln qq
        rw [← List.map_reverse, List.map_map, List.map_map]
        apply List.map_congr_left
        intro e _
        exact chordFix_sh L ht ln qq v e
      have key : ∀ ln qq : Int, (shSt L s1).setT { shTrk L s1.t with
            ev := (shTrk L s1.t).ev ++ (evs.map (shEv L)).reverse.map (chordFix (ht + L) ln qq v), tp := ht + L + ln }
          = shSt L (s1.setT { s1.t with ev := s1.t.ev ++ evs.reverse.map (chordFix ht ln qq v), tp := ht + ln }) := by
        intro ln qq
        rw [← shSt_setT, hm]
        congr 1
        simp only [shTrk, List.map_append]
        congr 1
        omega
      exact congrArg (fun X : St => ({ X with harm := none } : St)) (key _ _)
theorem semL_sh (L : Int) : ∀ (cs : List Cmd) (s : St), okL cs = true → s.WF → semL cs (shSt L s) = shSt L (semL cs s)
  | [], s, _, _ => rfl
  | c :: cs, s, hk, h => by
    simp only [okL, Bool.and_eq_true] at hk
    simp only [semL]
    rw [sem_sh L c s hk.1 h]
    exact semL_sh L cs (sem c s) hk.2 (sem_wf c s h)
end

/-- on a song that has one track and has written nothing yet, a rest is the move itself -/
theorem rest_is_shift (len : Option LenExpr) (s : St) (t : Trk) (hs : s.tr = [t]) (ht : t.ev = []) (hc : s.cur = 0) (hh : s.harm = none) :
    sem (.rest len 1) s = shSt (lenOpt s.tb t.l len) s := by
  obtain ⟨tb, tr, cur, keyflag, kshift, vAdd, harm⟩ := s
  simp only at hs hc hh
  subst hs hc hh
  simp [sem, St.t, St.setT, shSt, shTrk, ht]

/-- **a leading rest shifts everything by its length and changes nothing else**: for every program without `TR` / `PLAY` (any notes,
    chords, tuplets, `Sub`, loops, settings, `TrackSync` … at any depth), run after a rest of length `L` on a fresh single-track
    song it ends in the state it ends in without the rest, moved `L` ticks later -/
theorem leading_rest_shifts (len : Option LenExpr) (cs : List Cmd) (hk : okL cs = true) (s : St) (t : Trk)
    (hs : s.tr = [t]) (ht : t.ev = []) (hc : s.cur = 0) (hh : s.harm = none) :
    semL (.rest len 1 :: cs) s = shSt (lenOpt s.tb t.l len) (semL cs s) := by
  have hw : s.WF := by unfold St.WF; rw [hs, hc]; simp
  simp only [semL]
  rw [rest_is_shift len s t hs ht hc hh]
  exact semL_sh _ cs s hk hw

end Sakura.Core
