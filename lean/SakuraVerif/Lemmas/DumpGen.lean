import SakuraVerif.Lemmas.DumpWalk
import SakuraVerif.Lemmas.Smf
/-! # dump ∘ generate: what the writer model writes for a track, the reader model lists event by event -/
namespace Sakura.Dt
open Sakura Sakura.Spec

/-- events the dump can show in full: on top of `Valid`, a tempo meta holds 3 bytes and a time signature at least 2 (the dump reads
    them at fixed offsets), a SysEx begins with F0 (any length, any data bytes — an F7 among them is data) -/
def DValid (e : Event) : Prop :=
  Valid e ∧
  match e.kind with
  | .metaEv => (e.v2 = 0x51 → e.data.length = 3) ∧ (e.v2 = 0x58 → 2 ≤ e.data.length)
  | .sysex => ∃ rest, e.data = 0xF0 :: rest
  | _ => True

theorem encTrack_append (a b : List (Nat × Msg)) : encTrack (a ++ b) = encTrack a ++ encTrack b := by
  induction a with
  | nil => rfl
  | cons e r ih => simp [encTrack, ih]

theorem encodeDelta_small (n : Nat) (h : n < 128) : encodeDelta n = [n] := by
  have h0 : n / 128 = 0 := by omega
  have h1 : n % 128 = n := by omega
  simp [encodeDelta, h0, h1, vlqMore]


theorem u8_small (v : Int) (h0 : 0 ≤ v) (h1 : v < 256) : u8 v = v.toNat := by
  unfold u8; congr 1; omega

/-- the bytes of one written event are the byte form of the messages it must decode to, each of them well formed -/
theorem body_enc (e : Event) (hv : DValid e) (hs : skipped e = false) (d : Nat) :
    encodeDelta d ++ body e = encTrack (expected1 d e) ∧ ∀ x ∈ expected1 d e, WF x.2 := by
  obtain ⟨⟨h0, h16, hval⟩, hd⟩ := hv
  have hc : e.ch.toNat < 16 := by omega
  have e0 : encodeDelta 0 = [0] := by decide
  cases hkind : e.kind <;> simp only [hkind] at hval hd
  · -- noteOn
    simp [body, expected1, hkind, encTrack, encEv, encMsg, status_eq _ _ h0 h16, WF, hc, clamp7_lt]
  · simp [body, expected1, hkind, encTrack, encEv, encMsg, status_eq _ _ h0 h16, WF, hc, clamp7_lt]
  · simp [body, expected1, hkind, encTrack, encEv, encMsg, status_eq _ _ h0 h16, WF, hc, clamp7_lt]
  · -- pitchBend
    have hl : (clamp14 e.v1 % 128).toNat < 128 := by omega
    have hm : ((clamp14 e.v1 / 128) % 128).toNat < 128 := by omega
    simp [body, expected1, hkind, encTrack, encEv, encMsg, status_eq _ _ h0 h16, WF, hc, hl, hm]
  · -- pitchBendRange
    have hr : (if 0 ≤ e.v1 ∧ e.v1 ≤ 24 then e.v1.toNat else 0) < 128 := by split <;> omega
    simp [body, expected1, hkind, encTrack, encEv, encMsg, status_eq _ _ h0 h16, WF, hc, e0, hr]
  · simp [body, expected1, hkind, encTrack, encEv, encMsg, status_eq _ _ h0 h16, WF, hc, clamp7_lt]
  · -- meta
    obtain ⟨h1, h2a, h2b, _, h3, hlen, _⟩ := hval
    have a1 : u8 e.v1 = 0xFF := by rw [h1]; decide
    have a2 : u8 e.v2 = e.v2.toNat := u8_small _ h2a (by omega)
    have a3 : u8 e.v3 = e.data.length := by rw [h3]; unfold u8; omega
    refine ⟨by simp [body, expected1, hkind, encTrack, encEv, encMsg, a1, a2, a3], ?_⟩
    intro x hx
    simp only [expected1, hkind, List.mem_cons, List.not_mem_nil, or_false] at hx
    subst hx
    simp only [WF]
    refine ⟨by omega, hlen, ?_, ?_⟩
    · intro h; exact hd.1 (by omega)
    · intro h; exact hd.2 (by omega)
  · -- sysex
    obtain ⟨b, hb⟩ := hd
    refine ⟨?_, ?_⟩
    · simp only [body, expected1, hkind, encTrack, encEv, encMsg, hb]
      simp
    · intro x hx
      simp only [expected1, hkind, List.mem_cons, List.not_mem_nil, or_false] at hx
      subst hx
      simp only [WF]
  · -- directSmf: always skipped under Valid
    simp [skipped, hkind, hval] at hs


theorem gen_enc (es : List Event) (hv : ∀ e ∈ es, DValid e) : ∀ (tp : Int), SortedFrom tp es →
    genEvents tp es = encTrack (expected tp es) ∧ ∀ x ∈ expected tp es, WF x.2 := by
  induction es with
  | nil => intro tp _; simp [genEvents, expected, encTrack]
  | cons e es ih =>
    intro tp hs
    have hve := hv e List.mem_cons_self
    have hvs : ∀ x ∈ es, DValid x := fun x hx => hv x (List.mem_cons_of_mem _ hx)
    obtain ⟨hs1, hs2⟩ := hs
    by_cases hsk : skipped e = true
    · simp only [genEvents, expected, hsk, if_true]
      refine ih hvs tp ?_
      cases es with
      | nil => trivial
      | cons x xs => exact ⟨Int.le_trans hs1 hs2.1, hs2.2⟩
    · have hsk' : skipped e = false := by simpa using hsk
      have hd : 0 ≤ etime e - tp := by omega
      obtain ⟨h1, h2⟩ := body_enc e hve hsk' (etime e - tp).toNat
      obtain ⟨h3, h4⟩ := ih hvs (etime e) hs2
      simp only [genEvents, expected, hsk', Bool.false_eq_true, if_false, deltaBytes_nonneg _ hd, encTrack_append]
      refine ⟨by rw [h1, h3], ?_⟩
      intro x hx
      rcases List.mem_append.mp hx with h | h
      · exact h2 x h
      · exact h4 x h

theorem genTrack_enc (es : List Event) (hv : ∀ e ∈ es, DValid e) (hs : SortedFrom 0 es) :
    genTrack es = encTrack (expected 0 es ++ [eotMsg]) ∧ ∀ x ∈ expected 0 es ++ [eotMsg], WF x.2 := by
  obtain ⟨h1, h2⟩ := gen_enc es hv 0 hs
  have e0 : encodeDelta 0 = [0] := by decide
  refine ⟨by simp [genTrack, h1, encTrack_append, encTrack, encEv, encMsg, eotMsg, eotBytes, e0], ?_⟩
  intro x hx
  rcases List.mem_append.mp hx with h | h
  · exact h2 x h
  · simp only [List.mem_cons, List.not_mem_nil, or_false] at h
    subst h
    simp [eotMsg, WF]

/-- **dump ∘ generate, one track**: for every event list the writer accepts (`DValid`, sorted — what `normalize` establishes), the
    literal dump loop run over the bytes the writer model produces prints one line per written message, in order, at its tick,
    then the End-of-Track line, and stops at the end of the chunk body. -/
theorem dump_of_generated_track (tb : Nat) (es : List Event) (hv : ∀ e ∈ es, DValid e) (hs : SortedFrom 0 es)
    (pre post : List Nat) (info : Info) (ht : total (expected 0 es ++ [eotMsg]) < 18446744073709551616)
    (f : Nat) (hf : (expected 0 es ++ [eotMsg]).length + 1 ≤ f) :
    trackGo (pre ++ (genTrack es ++ post)) tb f pre.length (pre.length + (genTrack es).length) 0 info [] =
      (absLines tb info 0 (expected 0 es ++ [eotMsg]), pre.length + (genTrack es).length, updAll info (expected 0 es ++ [eotMsg])) := by
  obtain ⟨h1, h2⟩ := genTrack_enc es hv hs
  rw [h1]
  exact trackGo_enc tb _ h2 pre post info (updAll_eot info (expected 0 es) 0) ht f hf

end Sakura.Dt
