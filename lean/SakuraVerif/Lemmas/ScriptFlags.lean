import SakuraVerif.Lemmas.ScriptStack
/-! # BREAK and CONTINUE never leave the innermost enclosing loop

Expressions (classes `Ex`/`Arg`) never change `break_flag` — a call inside them restores it — so a loop's condition cannot raise
it; and whatever the body does, when `exec_while` / `exec_for` return the flag is neither 1 (BREAK) nor 2 (CONTINUE). -/
namespace Sakura.Sx

theorem setVar_brk (s : St) (k : List Nat) (v : V) : (setVar s k v).brk = s.brk := by
  unfold setVar; cases s.scopes <;> rfl

theorem bindParams_brk (fn : Fn) (argv : List V) (s : St) : (bindParams fn argv s).brk = s.brk := by
  unfold bindParams
  generalize fn.args.zipIdx = l
  induction l generalizing s with
  | nil => rfl
  | cons p r ih => simp only [List.foldl_cons]; exact (ih _).trans (setVar_brk _ _ _)

theorem leaveCall_brk (bound s1 : St) : (leaveCall bound s1).brk = bound.brk := by
  unfold leaveCall
  simp only []
  split
  · split <;> rfl
  · rfl

section
variable (fns : List Fn)

def BrkOK (f : Nat) : Prop :=
  (∀ t s, Arg fns t → (execTok fns f t s).brk = s.brk) ∧
  (∀ l s, (∀ a ∈ l, Arg fns a) → (execArgs fns f l s).2.brk = s.brk)

theorem single_brk (f : Nat) (ih : ∀ g, g < f → BrkOK fns g) (a : Tok) (ha : Arg fns a) (s : St) : (execList fns f [a] s).brk = s.brk := by
  cases f with
  | zero => simp [execList]
  | succ g =>
    rw [execList]
    split
    · rfl
    · cases g with
      | zero => simp [execList, execTok]
      | succ h =>
        have := (ih (h + 1) (by omega)).1 a s ha
        simpa [execList] using this

theorem valL_brk (f : Nat) (ih : ∀ g, g < f → BrkOK fns g) (c : List Tok) (hc : ValL fns c) (s : St) : (execList fns f c s).brk = s.brk := by
  rcases hc with rfl | ⟨a, rfl, ha⟩
  · cases f <;> simp [execList]
  · exact single_brk fns f ih a ha s

theorem brkOK : ∀ f, BrkOK fns f := by
  intro f
  induction f using Nat.strongRecOn with
  | _ f ih =>
    cases f with
    | zero => exact ⟨by intros; simp [execTok], by intros; simp [execArgs]⟩
    | succ g =>
      have ihg : ∀ k, k < g → BrkOK fns k := fun k hk => ih k (by omega)
      have hargs : ∀ l s, (∀ a ∈ l, Arg fns a) → (argsWith (execArgs fns g) l s).2.brk = s.brk := by
        intro l s hl
        unfold argsWith
        exact (ih g (by omega)).2 l { s with needRet := true } hl
      constructor
      · intro t s ht
        cases ht with
        | empty vi tag line vs data =>
          rw [execTok]
          simp only [Tok.ty, kids_mk]
          cases g <;> simp [execList]
        | ex he =>
          cases he with
          | constInt => rw [execTok]; simp [Tok.ty, push]
          | constStr => rw [execTok]; simp [Tok.ty, push]
          | getVar => rw [execTok]; simp [Tok.ty, Tok.vs, push]
          | calcNot vi line vs data kids hk =>
            rw [execTok]
            simp only [Tok.ty, Tok.tag, kids_mk]
            simp [push, hargs kids s hk]
          | calcBin vi tag line vs data kids h0 h33 _ hk =>
            rw [execTok]
            simp only [Tok.ty, Tok.tag, kids_mk, h0, h33, if_false]
            split <;> simp [push, hargs kids s hk]
          | calcWrap vi line vs data e he' =>
            rw [execTok]
            simp only [Tok.ty, Tok.tag, kids_mk, if_true]
            exact single_brk fns g ihg e (Arg.ex he') s
          | wrap vi tag line vs data e he' =>
            rw [execTok]
            simp only [Tok.ty, kids_mk]
            exact single_brk fns g ihg e (Arg.ex he') s
          | call vi tag line vs data kids h0 hlt hk =>
            have hget : fns[tag.toNat]? = some fns[tag.toNat] := List.getElem?_eq_getElem hlt
            have hneg : ¬ (tag < 0) := by omega
            rw [execTok]
            simp only [Tok.ty, Tok.tag, kids_mk, hget, hneg, if_false]
            rw [leaveCall_brk, bindParams_brk, hargs kids _ hk]
      · intro l s hl
        cases l with
        | nil => simp [execArgs]
        | cons t ts =>
          rw [execArgs]
          simp only []
          rw [(ih g (by omega)).2 ts _ (fun x hx => hl x (List.mem_cons_of_mem _ hx)), pop_brk]
          exact single_brk fns g ihg t (hl t List.mem_cons_self) s

/-- an expression position leaves `break_flag` as it found it -/
theorem value_brk (g : Nat) (c : List Tok) (hc : ValL fns c) (s : St) : (valueWith (execList fns g) c s).2.brk = s.brk := by
  unfold valueWith
  simp only [pop_brk]
  exact valL_brk fns g (fun k _ => brkOK fns k) c hc { s with needRet := true }

theorem whileNext_brk (line : Int) (k : Nat) (s3 s' : St) :
    (whileNext line k s3 = .stop s' → s'.brk ≠ 1 ∧ s'.brk ≠ 2) ∧ (whileNext line k s3 = .again s' → s'.brk ≠ 1 ∧ s'.brk ≠ 2) := by
  unfold whileNext
  by_cases h1 : k + 1 > maxLoop
  · simp only [h1, if_true]
    constructor
    · intro h; injection h with h; subst h
      split
      · simp
      · rename_i hn; simp only [not_or] at hn; exact hn
    · intro h; cases h
  · simp only [h1, if_false]
    by_cases h2 : s3.brk = 1
    · simp only [h2, if_true]
      constructor
      · intro h; injection h with h; subst h; simp
      · intro h; cases h
    · simp only [h2, if_false]
      by_cases h3 : s3.brk = 2
      · simp only [h3, if_true]
        constructor
        · intro h; cases h
        · intro h; injection h with h; subst h; simp
      · simp only [h3, if_false]
        by_cases h4 : s3.brk = 3
        · simp only [h4, if_true]
          constructor
          · intro h; injection h with h; subst h; simp [h4]
          · intro h; cases h
        · simp only [h4, if_false]
          constructor
          · intro h; cases h
          · intro h; injection h with h; subst h; exact ⟨h2, h3⟩

theorem forNext_brk (line : Int) (k : Nat) (s3 s' : St) :
    (forNext line k s3 = .stop s' → s'.brk ≠ 1 ∧ s'.brk ≠ 2) ∧ (forNext line k s3 = .again s' → s'.brk ≠ 1 ∧ s'.brk ≠ 2) := by
  unfold forNext
  by_cases h1 : k + 1 > maxLoop
  · simp only [h1, if_true]
    constructor
    · intro h; injection h with h; subst h
      split
      · simp
      · rename_i hn; simp only [not_or] at hn; exact hn
    · intro h; cases h
  · simp only [h1, if_false]
    by_cases h2 : s3.brk = 1
    · simp only [h2, if_true]
      constructor
      · intro h; injection h with h; subst h; simp
      · intro h; cases h
    · simp only [h2, if_false]
      by_cases h3 : s3.brk = 2
      · simp only [h3, if_true]
        constructor
        · intro h; cases h
        · intro h; injection h with h; subst h; simp
      · simp only [h3, if_false]
        constructor
        · intro h; cases h
        · intro h; injection h with h; subst h; exact ⟨h2, h3⟩

/-- **BREAK/CONTINUE stay inside their loop (WHILE)**: whatever the body is, a loop entered without a pending BREAK/CONTINUE
    returns without one -/
theorem while_consumes_break : ∀ (f : Nat) (line : Int) (c b : List Tok) (k : Nat) (s : St), ValL fns c → s.brk ≠ 1 ∧ s.brk ≠ 2 →
    (whileGo fns f line c b k s).brk ≠ 1 ∧ (whileGo fns f line c b k s).brk ≠ 2 := by
  intro f
  induction f with
  | zero => intro line c b k s _ hs; simpa [whileGo] using hs
  | succ g ih =>
    intro line c b k s hc hs
    rw [whileGo]
    split
    · rw [value_brk fns g c hc s]; exact hs
    · split
      · rename_i heq; exact (whileNext_brk line k _ _).1 heq
      · rename_i heq; exact ih line c b (k + 1) _ hc ((whileNext_brk line k _ _).2 heq)

/-- the same for FOR; the increment clause is a list of statements that do not raise the flags (assignments, `I++`) -/
theorem for_consumes_break : ∀ (f : Nat) (line : Int) (c n b : List Tok) (k : Nat) (s : St), ValL fns c →
    (∀ g s, s.brk ≠ 1 ∧ s.brk ≠ 2 → (execList fns g n s).brk ≠ 1 ∧ (execList fns g n s).brk ≠ 2) → s.brk ≠ 1 ∧ s.brk ≠ 2 →
    (forGo fns f line c n b k s).brk ≠ 1 ∧ (forGo fns f line c n b k s).brk ≠ 2 := by
  intro f
  induction f with
  | zero => intro line c n b k s _ _ hs; simpa [forGo] using hs
  | succ g ih =>
    intro line c n b k s hc hn hs
    rw [forGo]
    split
    · rw [value_brk fns g c hc s]; exact hs
    · split
      · rename_i heq; exact (forNext_brk line k _ _).1 heq
      · rename_i heq; exact ih line c n b (k + 1) _ hc hn (hn g _ ((forNext_brk line k _ _).2 heq))

end
end Sakura.Sx
