import SakuraVerif.Lemmas.ExecLocal
import SakuraVerif.Lemmas.ExecNote
/-! # For what follows, a note is a rest of its length (C13 / C03 on the literal runner model)

In a quiet state (outside a chord, no pending octave-once mark, Random settings off) a note — tied or not, written or collected —
leaves the song exactly where a rest of the note's length leaves it, except for what the note writes (the track's event list, its
pending group, the bend range of a flush).  Hence whatever follows a tied group is what follows a rest of the group's length. -/
namespace Sakura.Ex2
open Sakura Sakura.Lx

theorem emitNote_written_only (s : Song) (e : Event) (k : Int) (hh : s.harmonyFlag = false) (hc : s.cur < s.tracks.length) :
    sameButWritten (emitNote s e k) s := by
  unfold emitNote
  simp only [hh, Bool.false_eq_true, if_false]
  have one : ∀ t' : Trk, ({ t' with events := [], tieNotes := [], bendRange := 0 } : Trk) = { s.t with events := [], tieNotes := [], bendRange := 0 } →
      sameButWritten (s.setT t') s := by
    intro t' ht
    obtain ⟨_, hl, ho⟩ := Indep.setT s t'
    exact ⟨rfl, hl, fun i hi => ho i hi, by rw [setT_t' _ _ hc]; exact ht⟩
  split
  · exact one _ rfl
  · split
    · exact one _ rfl
    · exact one _ rfl

/-- **a note is, for everything that follows, a rest of its length** -/
theorem execNote_like_rest (s : Song) (tk : Tok) (hq : Quiet s) (h8 : 8 ≤ tk.data.length) :
    sameButWritten (execNote s tk) (s.setT { s.t with timepos := s.t.timepos + Len.calcLength s.tb s.t.length (dataS tk.data 2) }) := by
  obtain ⟨q1, q2, q3, q4, q5, q6, q7⟩ := hq
  unfold execNote
  simp only [if_neg (show ¬ tk.data.length < 8 by omega)]
  rw [noteDraws_off s _ _ _ _ q3 q4 q5 q6]
  simp only []
  have hadv : ∀ tp, advance s tp = s.setT { s.t with timepos := tp } := by
    intro tp
    unfold advance
    simp only []
    have : (s.setT { s.t with timepos := tp }).octaveOnce = 0 := q2
    rw [if_neg (by rw [this]; simp)]
  rw [hadv]
  apply emitNote_written_only
  · exact q1
  · simpa [Song.setT] using q7

end Sakura.Ex2
