import SakuraVerif.Lemmas.ScriptStack
import SakuraVerif.Lemmas.ScriptTerm
/-! # Executable checkers for the premises of the script theorems, proved sound

`Stm` / `Ex` / `Arg` / `FnsOK` / `Ranked` are the premises of the stack, scope, termination and progress theorems.  The driver
decides them on the real token lists with the functions below (`d` bounds the nesting depth that is inspected; running out of it
answers `false`), and `*_sound` proves that the answer `true` gives the premise — so "the theorem applies to this program" is
itself checked, not assumed. -/
namespace Sakura.Sx

theorem calcOp_isSome (tag : Int) (h : (calcOp tag none none).isSome = true) (a b : V) : calcOp tag a b ≠ none := by
  unfold calcOp at h ⊢
  by_cases h0 : tag = 38
  · subst h0; simp
  by_cases h1 : tag = 124
  · subst h1; simp
  by_cases h2 : tag = 61
  · subst h2; simp
  by_cases h3 : tag = 0x2260
  · subst h3; simp
  by_cases h4 : tag = 62
  · subst h4; simp
  by_cases h5 : tag = 0x2267
  · subst h5; simp
  by_cases h6 : tag = 60
  · subst h6; simp
  by_cases h7 : tag = 0x2266
  · subst h7; simp
  by_cases h8 : tag = 43
  · subst h8; simp
  by_cases h9 : tag = 45
  · subst h9; simp
  by_cases h10 : tag = 42
  · subst h10; simp
  by_cases h11 : tag = 47
  · subst h11; simp
  by_cases h12 : tag = 37
  · subst h12; simp
  simp only [h0, h1, h2, h3, h4, h5, h6, h7, h8, h9, h10, h11, h12, if_false] at h
  simp at h

mutual
def exB (n : Nat) : Nat → Tok → Bool
  | 0, _ => false
  | d + 1, .mk ty _ tag _ vs _ ch =>
    match ty with
    | .constInt | .constStr => true
    | .getVariable => vs.isSome
    | .calcTree =>
      (match ch with
       | some kids =>
         if tag = 0 then (match kids with | [e] => exB n d e | _ => false)
         else if tag = 33 then kids.all (argB n d)
         else (calcOp tag none none).isSome && kids.all (argB n d)
       | none => false)
    | .tokens => (match ch with | some [e] => exB n d e | _ => false)
    | .callUser =>
      (match ch with
       | some kids => decide (0 ≤ tag) && decide (tag.toNat < n) && kids.all (argB n d)
       | none => false)
    | _ => false
def argB (n : Nat) : Nat → Tok → Bool
  | 0, _ => false
  | d + 1, t => (match t with | .mk .tokens _ _ _ _ _ (some []) => true | _ => false) || exB n d t
end

theorem exArgB_sound (fns : List Fn) : ∀ d, (∀ t, exB fns.length d t = true → Ex fns t) ∧ (∀ t, argB fns.length d t = true → Arg fns t) := by
  intro d
  induction d with
  | zero => exact ⟨fun t h => by simp [exB] at h, fun t h => by simp [argB] at h⟩
  | succ d ih =>
    have hall : ∀ kids : List Tok, kids.all (argB fns.length d) = true → ∀ a ∈ kids, Arg fns a := by
      intro kids h a ha
      exact ih.2 a (List.all_eq_true.1 h a ha)
    have hex : ∀ t, exB fns.length (d + 1) t = true → Ex fns t := by
      intro t h
      cases t with
      | mk ty vi tag line vs data ch =>
        cases ty <;> simp only [exB] at h <;> try (exact absurd h Bool.false_ne_true)
        case getVariable =>
          cases vs with
          | none => simp at h
          | some k => exact Ex.getVar ..
        case constInt => exact Ex.constInt ..
        case constStr => exact Ex.constStr ..
        case calcTree =>
          cases ch with
          | none => simp at h
          | some kids =>
            simp only at h
            by_cases h0 : tag = 0
            · subst h0
              simp only [if_true] at h
              match kids, h with
              | [e], h => exact Ex.calcWrap _ _ _ _ e (ih.1 e h)
            · simp only [h0, if_false] at h
              by_cases h33 : tag = 33
              · subst h33
                simp only [if_true] at h
                exact Ex.calcNot _ _ _ _ kids (hall kids h)
              · simp only [h33, if_false, Bool.and_eq_true] at h
                exact Ex.calcBin _ tag _ _ _ kids h0 h33 (calcOp_isSome tag h.1) (hall kids h.2)
        case tokens =>
          match ch, h with
          | some [e], h => exact Ex.wrap _ _ _ _ _ e (ih.1 e h)
        case callUser =>
          cases ch with
          | none => simp at h
          | some kids =>
            simp only [Bool.and_eq_true, decide_eq_true_eq] at h
            exact Ex.call _ tag _ _ _ kids h.1.1 h.1.2 (hall kids h.2)
    refine ⟨hex, ?_⟩
    intro t h
    simp only [argB, Bool.or_eq_true] at h
    rcases h with h | h
    · match t, h with
      | .mk .tokens _ _ _ _ _ (some []), _ => exact Arg.empty ..
    · cases d with
      | zero => simp [exB] at h
      | succ d' => exact Arg.ex (ih.1 t h)

theorem exB_sound (fns : List Fn) (d : Nat) (t : Tok) (h : exB fns.length d t = true) : Ex fns t := (exArgB_sound fns d).1 t h
theorem argB_sound (fns : List Fn) (d : Nat) (t : Tok) (h : argB fns.length d t = true) : Arg fns t := (exArgB_sound fns d).2 t h

def valLB (n d : Nat) (l : List Tok) : Bool :=
  match l with
  | [] => true
  | [a] => argB n d a
  | _ => false

theorem valLB_sound (fns : List Fn) (d : Nat) (l : List Tok) (h : valLB fns.length d l = true) : ValL fns l := by
  unfold valLB at h
  match l, h with
  | [], _ => exact Or.inl rfl
  | [a], h => exact Or.inr ⟨a, rfl, argB_sound fns d a h⟩

def stmB (n : Nat) : Nat → Tok → Bool
  | 0, _ => false
  | d + 1, .mk ty _ tag _ vs data ch =>
    match ty with
    | .lineNo | .valueInc | .break_ | .continue_ => true
    | .defInt | .defStr => vs.isSome && (match ch with | some kids => valLB n d kids | none => false)
    | .letVar => (match data, ch with | .str _ :: _, some kids => valLB n d kids | _, _ => false)
    | .print => (match ch with | some kids => kids.all (argB n d) | none => false)
    | .tokens => (match ch with | some kids => kids.all (stmB n d) | none => false)
    | .if_ =>
      (match ch with
       | some (c :: th :: el :: _) => valLB n d c.kids && th.kids.all (stmB n d) && el.kids.all (stmB n d)
       | _ => false)
    | .while_ =>
      (match ch with
       | some (c :: b :: _) => valLB n d c.kids && b.kids.all (stmB n d)
       | _ => false)
    | .for_ =>
      (match ch with
       | some (i :: c :: k :: b :: _) => i.kids.all (stmB n d) && valLB n d c.kids && k.kids.all (stmB n d) && b.kids.all (stmB n d)
       | _ => false)
    | .return_ => (match ch with | some kids => valLB n d kids | none => false)
    | .callUser =>
      (match ch with
       | some kids => decide (0 ≤ tag) && decide (tag.toNat < n) && kids.all (argB n d)
       | none => false)
    | .noteN => (match data with | .int _ :: _ => true | _ => false)
    | _ => false

theorem stmB_sound (fns : List Fn) : ∀ d t, stmB fns.length d t = true → Stm fns t := by
  intro d
  induction d with
  | zero => intro t h; simp [stmB] at h
  | succ d ih =>
    have hall : ∀ kids : List Tok, kids.all (stmB fns.length d) = true → ∀ a ∈ kids, Stm fns a := by
      intro kids h a ha
      exact ih a (List.all_eq_true.1 h a ha)
    have hargs : ∀ kids : List Tok, kids.all (argB fns.length d) = true → ∀ a ∈ kids, Arg fns a := by
      intro kids h a ha
      exact argB_sound fns d a (List.all_eq_true.1 h a ha)
    intro t h
    cases t with
    | mk ty vi tag line vs data ch =>
      cases ty <;> simp only [stmB] at h <;> try (exact absurd h Bool.false_ne_true)
      case lineNo => exact Stm.lineNo ..
      case valueInc => exact Stm.valueInc ..
      case break_ => exact Stm.break_ ..
      case continue_ => exact Stm.continue_ ..
      case defInt =>
        match vs, ch, h with
        | some k, some kids, h =>
          simp only [Option.isSome_some, Bool.true_and] at h
          exact Stm.defInt _ _ _ k _ kids (valLB_sound fns d kids h)
      case defStr =>
        match vs, ch, h with
        | some k, some kids, h =>
          simp only [Option.isSome_some, Bool.true_and] at h
          exact Stm.defStr _ _ _ k _ kids (valLB_sound fns d kids h)
      case letVar =>
        match data, ch, h with
        | .str k :: rest, some kids, h => exact Stm.letVar _ _ _ _ k rest kids (valLB_sound fns d kids h)
      case print =>
        match ch, h with
        | some kids, h => exact Stm.print _ _ _ _ _ kids (hargs kids h)
      case tokens =>
        match ch, h with
        | some kids, h => exact Stm.block _ _ _ _ _ kids (hall kids h)
      case if_ =>
        match ch, h with
        | some (c :: th :: el :: rest), h =>
          simp only [Bool.and_eq_true] at h
          exact Stm.if_ _ _ _ _ _ c th el rest (valLB_sound fns d _ h.1.1) (hall _ h.1.2) (hall _ h.2)
      case while_ =>
        match ch, h with
        | some (c :: b :: rest), h =>
          simp only [Bool.and_eq_true] at h
          exact Stm.while_ _ _ _ _ _ c b rest (valLB_sound fns d _ h.1) (hall _ h.2)
      case for_ =>
        match ch, h with
        | some (i :: c :: k :: b :: rest), h =>
          simp only [Bool.and_eq_true] at h
          exact Stm.for_ _ _ _ _ _ i c k b rest (hall _ h.1.1.1) (valLB_sound fns d _ h.1.1.2) (hall _ h.1.2) (hall _ h.2)
      case return_ =>
        match ch, h with
        | some kids, h => exact Stm.return_ _ _ _ _ _ kids (valLB_sound fns d kids h)
      case callUser =>
        match ch, h with
        | some kids, h =>
          simp only [Bool.and_eq_true, decide_eq_true_eq] at h
          exact Stm.call _ tag _ _ _ kids h.1.1 h.1.2 (hargs kids h.2)
      case noteN =>
        match data, h with
        | .int n :: rest, _ => exact Stm.noteN _ _ _ _ n rest _

/-- the whole program: top level and every body are statement lists -/
def progB (fns : List Fn) (toks : List Tok) (d : Nat) : Bool :=
  toks.all (stmB fns.length d) && fns.all (fun fn => fn.body.all (stmB fns.length d))

theorem progB_sound (fns : List Fn) (toks : List Tok) (d : Nat) (h : progB fns toks d = true) :
    (∀ t ∈ toks, Stm fns t) ∧ FnsOK fns := by
  simp only [progB, Bool.and_eq_true] at h
  refine ⟨fun t ht => stmB_sound fns d t (List.all_eq_true.1 h.1 t ht), ?_⟩
  intro fn hfn t ht
  exact stmB_sound fns d t (List.all_eq_true.1 (List.all_eq_true.1 h.2 fn hfn) t ht)

/-- no call cycle: every body calls lower-numbered functions only -/
def rankedB (fns : List Fn) : Bool := fns.zipIdx.all (fun p => belowList p.2 p.1.body)

theorem rankedB_sound (fns : List Fn) (h : rankedB fns = true) : Ranked fns := by
  intro i fn hi
  have hm : (fn, i) ∈ fns.zipIdx := List.mem_zipIdx_iff_getElem?.2 hi
  exact List.all_eq_true.1 h (fn, i) hm

end Sakura.Sx
