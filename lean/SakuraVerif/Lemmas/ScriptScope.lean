import SakuraVerif.Model.ScriptExec
/-! # Scoping of the script runner: nothing reaches below the innermost scope, a call gives the caller's scopes back

`Frame s s'`: the stack of scopes has the same height and the same scopes below the innermost one.  Every arm of the literal
runner keeps it (no hypothesis on the tokens), so a call — which pushes a scope, runs arguments and body inside it and pops it —
returns exactly the caller's scopes. -/
namespace Sakura.Sx

def Frame (s s' : St) : Prop := s'.scopes.length = s.scopes.length ∧ s'.scopes.drop 1 = s.scopes.drop 1

theorem Frame.refl (s : St) : Frame s s := ⟨rfl, rfl⟩
theorem Frame.trans {a b c : St} (h1 : Frame a b) (h2 : Frame b c) : Frame a c :=
  ⟨h2.1.trans h1.1, h2.2.trans h1.2⟩
theorem Frame.of_scopes {s s' : St} (h : s'.scopes = s.scopes) : Frame s s' := by
  unfold Frame; rw [h]; exact ⟨rfl, rfl⟩

theorem setVar_frame (s : St) (k : List Nat) (v : V) : Frame s (setVar s k v) := by
  unfold setVar Frame
  cases h : s.scopes with
  | nil => simp [h]
  | cons sc r => simp

theorem pop_scopes (s : St) : (pop s).2.scopes = s.scopes := by
  unfold pop; cases s.stack <;> rfl
theorem push_scopes (s : St) (v : V) : (push s v).scopes = s.scopes := rfl

section
variable (fns : List Fn)

def FrOK (f : Nat) : Prop :=
  (∀ t s, Frame s (execTok fns f t s)) ∧ (∀ l s, Frame s (execList fns f l s)) ∧ (∀ l s, Frame s (execArgs fns f l s).2) ∧
  (∀ line c b k s, Frame s (whileGo fns f line c b k s)) ∧ (∀ line c n b k s, Frame s (forGo fns f line c n b k s))

theorem valueWith_frame (run : List Tok → St → St) (hrun : ∀ l s, Frame s (run l s)) (toks : List Tok) (s : St) :
    Frame s (valueWith run toks s).2 := by
  unfold valueWith
  have h := hrun toks { s with needRet := true }
  refine Frame.trans (Frame.of_scopes rfl : Frame s { s with needRet := true }) (Frame.trans h (Frame.of_scopes ?_))
  simp [pop_scopes]

theorem argsWith_frame (runArgs : List Tok → St → List V × St) (hrun : ∀ l s, Frame s (runArgs l s).2) (toks : List Tok) (s : St) :
    Frame s (argsWith runArgs toks s).2 := by
  unfold argsWith
  have h := hrun toks { s with needRet := true }
  exact Frame.trans (Frame.of_scopes rfl : Frame s { s with needRet := true }) (Frame.trans h (Frame.of_scopes rfl))

theorem bindParams_frame (fn : Fn) (argv : List V) (s : St) : Frame s (bindParams fn argv s) := by
  unfold bindParams
  generalize fn.args.zipIdx = l
  induction l generalizing s with
  | nil => exact Frame.refl s
  | cons p r ih => simp only [List.foldl_cons]; exact Frame.trans (setVar_frame _ _ _) (ih _)

theorem whileNext_scopes (line : Int) (k : Nat) (s3 s' : St) (h : whileNext line k s3 = .stop s' ∨ whileNext line k s3 = .again s') :
    s'.scopes = s3.scopes := by
  unfold whileNext at h
  by_cases h1 : k + 1 > maxLoop
  · simp only [h1, if_true] at h
    rcases h with h | h
    · injection h with h; subst h; split <;> rfl
    · cases h
  · simp only [h1, if_false] at h
    by_cases h2 : s3.brk = 1
    · simp only [h2, if_true] at h
      rcases h with h | h
      · injection h with h; subst h; rfl
      · cases h
    · simp only [h2, if_false] at h
      by_cases h3 : s3.brk = 2
      · simp only [h3, if_true] at h
        rcases h with h | h
        · cases h
        · injection h with h; subst h; rfl
      · simp only [h3, if_false] at h
        by_cases h4 : s3.brk = 3
        · simp only [h4, if_true] at h
          rcases h with h | h
          · injection h with h; subst h; rfl
          · cases h
        · simp only [h4, if_false] at h
          rcases h with h | h
          · cases h
          · injection h with h; subst h; rfl

theorem forNext_scopes (line : Int) (k : Nat) (s3 s' : St) (h : forNext line k s3 = .stop s' ∨ forNext line k s3 = .again s') :
    s'.scopes = s3.scopes := by
  unfold forNext at h
  by_cases h1 : k + 1 > maxLoop
  · simp only [h1, if_true] at h
    rcases h with h | h
    · injection h with h; subst h; split <;> rfl
    · cases h
  · simp only [h1, if_false] at h
    by_cases h2 : s3.brk = 1
    · simp only [h2, if_true] at h
      rcases h with h | h
      · injection h with h; subst h; rfl
      · cases h
    · simp only [h2, if_false] at h
      by_cases h3 : s3.brk = 2
      · simp only [h3, if_true] at h
        rcases h with h | h
        · cases h
        · injection h with h; subst h; rfl
      · simp only [h3, if_false] at h
        rcases h with h | h
        · cases h
        · injection h with h; subst h; rfl

theorem frame_cons {a b : St} (h : Frame a b) {hd : Scope} {base : List Scope} (ha : a.scopes = hd :: base) :
    ∃ hd', b.scopes = hd' :: base := by
  obtain ⟨h1, h2⟩ := h
  rw [ha] at h1 h2
  cases hb : b.scopes with
  | nil => rw [hb] at h1; simp at h1
  | cons x r => rw [hb] at h2; simp at h2; exact ⟨x, by rw [h2]⟩

theorem leaveCall_scopes (bound s1 : St) (base : List Scope) (h : ∃ hd, s1.scopes = hd :: base) : (leaveCall bound s1).scopes = base := by
  obtain ⟨hd, h⟩ := h
  unfold leaveCall
  simp only [h]
  split <;> rfl

theorem frOK : ∀ f, FrOK fns f := by
  intro f
  induction f using Nat.strongRecOn with
  | _ f ih =>
    cases f with
    | zero =>
      refine ⟨?_, ?_, ?_, ?_, ?_⟩ <;> intros <;> simp [execTok, execList, execArgs, whileGo, forGo, Frame]
    | succ g =>
      obtain ⟨iT, iL, iA, iW, iF⟩ := ih g (by omega)
      have hval : ∀ toks s, Frame s (valueWith (execList fns g) toks s).2 := valueWith_frame _ iL
      have harg : ∀ toks s, Frame s (argsWith (execArgs fns g) toks s).2 := argsWith_frame _ iA
      refine ⟨?_, ?_, ?_, ?_, ?_⟩
      · -- execTok
        intro t s
        rw [execTok]
        simp only []
        split
        · exact Frame.refl s
        · exact Frame.of_scopes rfl
        · exact Frame.of_scopes rfl
        · split
          · exact Frame.of_scopes rfl
          · exact Frame.of_scopes rfl
        · split
          · exact Frame.trans (hval _ s) (setVar_frame _ _ _)
          · exact Frame.of_scopes rfl
        · split
          · exact Frame.trans (hval _ s) (setVar_frame _ _ _)
          · exact Frame.of_scopes rfl
        · split
          · exact Frame.trans (hval _ s) (setVar_frame _ _ _)
          · exact Frame.of_scopes rfl
        · exact setVar_frame _ _ _
        · exact iL _ s
        · exact Frame.trans (harg _ s) (Frame.of_scopes rfl)
        · split
          · exact iL _ s
          · split
            · exact Frame.trans (harg _ s) (Frame.of_scopes rfl)
            · split
              · exact Frame.trans (harg _ s) (Frame.of_scopes rfl)
              · exact Frame.trans (harg _ s) (Frame.of_scopes rfl)
        · split
          · split
            · exact Frame.trans (hval _ s) (iL _ _)
            · exact Frame.trans (hval _ s) (iL _ _)
          · exact Frame.refl s
        · split
          · exact iW _ _ _ _ s
          · exact Frame.refl s
        · split
          · exact Frame.trans (iL _ s) (iF _ _ _ _ _ _)
          · exact Frame.refl s
        · exact Frame.of_scopes rfl
        · exact Frame.of_scopes rfl
        · exact Frame.trans (hval _ s) (Frame.trans (setVar_frame _ _ _) (Frame.of_scopes rfl))
        · split
          · exact Frame.of_scopes rfl
          · split
            · exact Frame.of_scopes rfl
            · -- the call
              rename_i fn _ _
              have h0 : Frame { s with scopes := [] :: s.scopes } (argsWith (execArgs fns g) t.kids { s with scopes := [] :: s.scopes }).2 := harg _ _
              have h1 := bindParams_frame fn (argsWith (execArgs fns g) t.kids { s with scopes := [] :: s.scopes }).1
                (argsWith (execArgs fns g) t.kids { s with scopes := [] :: s.scopes }).2
              have h2 := iL fn.body { (bindParams fn (argsWith (execArgs fns g) t.kids { s with scopes := [] :: s.scopes }).1
                (argsWith (execArgs fns g) t.kids { s with scopes := [] :: s.scopes }).2) with needRet := false }
              have h3 : Frame { s with scopes := [] :: s.scopes } _ := Frame.trans h0 (Frame.trans h1 (Frame.trans (Frame.of_scopes rfl) h2))
              exact Frame.of_scopes (leaveCall_scopes _ _ s.scopes (frame_cons h3 rfl))
        · split
          · exact Frame.of_scopes rfl
          · exact Frame.of_scopes rfl
        · exact Frame.of_scopes rfl
      · -- execList
        intro l s
        cases l with
        | nil => rw [execList]; exact Frame.refl s
        | cons t ts =>
          rw [execList]
          split
          · exact Frame.refl s
          · exact Frame.trans (iT t s) (iL ts _)
      · -- execArgs
        intro l s
        cases l with
        | nil => rw [execArgs]; exact Frame.refl s
        | cons t ts =>
          rw [execArgs]
          simp only []
          exact Frame.trans (iL [t] s) (Frame.trans (Frame.of_scopes (pop_scopes _)) (iA ts _))
      · -- whileGo
        intro line c b k s
        rw [whileGo]
        split
        · exact hval c s
        · split
          · rename_i heq
            exact Frame.trans (hval c s) (Frame.trans (iL b _) (Frame.of_scopes (whileNext_scopes line k _ _ (Or.inl heq))))
          · rename_i heq
            exact Frame.trans (hval c s) (Frame.trans (iL b _) (Frame.trans (Frame.of_scopes (whileNext_scopes line k _ _ (Or.inr heq))) (iW _ _ _ _ _)))
      · -- forGo
        intro line c n b k s
        rw [forGo]
        split
        · exact hval c s
        · split
          · rename_i heq
            exact Frame.trans (hval c s) (Frame.trans (iL b _) (Frame.of_scopes (forNext_scopes line k _ _ (Or.inl heq))))
          · rename_i heq
            exact Frame.trans (hval c s) (Frame.trans (iL b _) (Frame.trans (Frame.of_scopes (forNext_scopes line k _ _ (Or.inr heq)))
              (Frame.trans (iL n _) (iF _ _ _ _ _ _))))

/-- **a call gives the caller's scopes back exactly**: whatever the arguments and the body do (declarations, assignments,
    nested calls, early RETURN), after the call arm the stack of scopes is the caller's — parameters and local declarations never
    change the caller's variables -/
theorem call_scopes (f : Nat) (vi tag line : Int) (vs : Option (List Nat)) (data : List Dat) (ch : Option (List Tok)) (s : St) :
    (execTok fns f (.mk .callUser vi tag line vs data ch) s).scopes = s.scopes := by
  cases f with
  | zero => simp [execTok]
  | succ g =>
    obtain ⟨_, iL, iA, _, _⟩ := frOK fns g
    rw [execTok]
    simp only [Tok.ty, Tok.tag]
    split
    · rfl
    · by_cases hneg : tag < 0
      · simp only [hneg, if_true]
      · simp only [hneg, if_false]
        rename_i fn _
        have h0 := argsWith_frame (execArgs fns g) iA (Tok.mk .callUser vi tag line vs data ch).kids { s with scopes := [] :: s.scopes }
        have h1 := bindParams_frame fn (argsWith (execArgs fns g) (Tok.mk .callUser vi tag line vs data ch).kids { s with scopes := [] :: s.scopes }).1
          (argsWith (execArgs fns g) (Tok.mk .callUser vi tag line vs data ch).kids { s with scopes := [] :: s.scopes }).2
        have h2 := iL fn.body { (bindParams fn (argsWith (execArgs fns g) (Tok.mk .callUser vi tag line vs data ch).kids { s with scopes := [] :: s.scopes }).1
          (argsWith (execArgs fns g) (Tok.mk .callUser vi tag line vs data ch).kids { s with scopes := [] :: s.scopes }).2) with needRet := false }
        have h3 : Frame { s with scopes := [] :: s.scopes } _ := Frame.trans h0 (Frame.trans h1 (Frame.trans (Frame.of_scopes rfl) h2))
        exact leaveCall_scopes _ _ s.scopes (frame_cons h3 rfl)

/-- no statement, loop or expression reaches below the innermost scope -/
theorem exec_frame (f : Nat) (l : List Tok) (s : St) : Frame s (execList fns f l s) := (frOK fns f).2.1 l s

end
end Sakura.Sx
