import SakuraVerif.Lemmas.ExecFrame
/-! # The tie mark changes what is written, not where the track stands (C13 on the runner model)

`exec_note` reads the tie mark (`&`, the eighth argument of a note token) only at its very end, to decide whether the finished
note is written, collected into the pending group, or closes the group.  Everything else — the time pointer, the Random draws
(hence the seed), octave-once, the track's settings — is the same with or without the mark. -/
namespace Sakura.Ex2
open Sakura Sakura.Lx

/-- the note token with its tie argument replaced -/
def withTie (tk : Tok) (x : SV) : Tok :=
  match tk with
  | .mk ty vi ln vs d ch => .mk ty vi ln vs (d.set 7 x) ch

theorem dataI_set7 (d : List SV) (x : SV) (i : Nat) (h : i ≠ 7) : dataI (d.set 7 x) i = dataI d i := by
  simp [dataI, List.getD_eq_getElem?_getD, List.getElem?_set, Ne.symm h]

theorem dataS_set7 (d : List SV) (x : SV) (i : Nat) (h : i ≠ 7) : dataS (d.set 7 x) i = dataS d i := by
  simp [dataS, List.getD_eq_getElem?_getD, List.getElem?_set, Ne.symm h]

/-- what `emitNote` leaves untouched: everything of the song but the selected track's event list, pending group and bend range -/
def sameButWritten (a b : Song) : Prop :=
  ({ a with tracks := [] } : Song) = { b with tracks := [] } ∧ a.tracks.length = b.tracks.length ∧
    (∀ i, i ≠ a.cur → a.tracks[i]? = b.tracks[i]?) ∧
    ({ a.t with events := [], tieNotes := [], bendRange := 0 } : Trk) = { b.t with events := [], tieNotes := [], bendRange := 0 }

theorem emitNote_sameButWritten (s : Song) (ev ev' : Event) (sl sl' : Int) (hh : s.harmonyFlag = false) (hc : s.cur < s.tracks.length) :
    sameButWritten (emitNote s ev sl) (emitNote s ev' sl') := by
  have key : ∀ (e : Event) (k : Int), sameButWritten (emitNote s e k) s := by
    intro e k
    unfold emitNote
    simp only [hh, Bool.false_eq_true, if_false]
    have one : ∀ t' : Trk, ({ t' with events := [], tieNotes := [], bendRange := 0 } : Trk) = { s.t with events := [], tieNotes := [], bendRange := 0 } →
        sameButWritten (s.setT t') s := by
      intro t' ht
      obtain ⟨_, hl, ho⟩ := Indep.setT s t'
      exact ⟨rfl, hl, fun i hi => ho i hi, by rw [setT_t' _ _ hc]; exact ht⟩
    split
    · exact one _ rfl
    · split
      · exact one _ rfl
      · exact one _ rfl
  obtain ⟨a1, a2, a3, a4⟩ := key ev sl
  obtain ⟨b1, b2, b3, b4⟩ := key ev' sl'
  have hcur : (emitNote s ev sl).cur = s.cur := by
    have := congrArg (fun x : Song => x.cur) a1
    exact this
  have hcur' : (emitNote s ev' sl').cur = s.cur := by
    have := congrArg (fun x : Song => x.cur) b1
    exact this
  refine ⟨a1.trans b1.symm, a2.trans b2.symm, fun i hi => ?_, a4.trans b4.symm⟩
  rw [a3 i hi, b3 i (by rw [hcur']; rw [hcur] at hi; exact hi)]

theorem sameButWritten_refl (s : Song) : sameButWritten s s := ⟨rfl, rfl, fun _ _ => rfl, rfl⟩

theorem drawIf_harmony (w v : Int) (s : Song) : (drawIf w v s).2.harmonyFlag = s.harmonyFlag := by
  unfold drawIf; split <;> rfl

theorem noteDraws_harmony (s : Song) (k v t q : Int) : (noteDraws s k v t q).2.harmonyFlag = s.harmonyFlag := by
  unfold noteDraws
  simp only [drawIf_harmony]
  split <;> rfl

theorem advance_harmony (s : Song) (tp : Int) : (advance s tp).harmonyFlag = s.harmonyFlag := by
  unfold advance
  simp only []
  split <;> rfl

theorem adv_draw_ok (s : Song) (k v t q tp : Int) (hc : s.cur < s.tracks.length) :
    (advance (noteDraws s k v t q).2 tp).cur < (advance (noteDraws s k v t q).2 tp).tracks.length := by
  have := (noteDraws_indep s k v t q).trans (advance_indep _ tp)
  rw [this.1, this.2.1]
  exact hc

/-- **the tie mark does not move anything**: the same note with and without `&` (or with any other tie argument) leaves the song in the
    same state — time pointer, Random seed, octave-once, every setting of the track, every other track — except for what is
    written: the track's event list, its pending group and the bend range the group's flush sends -/
theorem execNote_tie_irrelevant (s : Song) (tk : Tok) (x : SV) (hh : s.harmonyFlag = false) (hc : s.cur < s.tracks.length) :
    sameButWritten (execNote s (withTie tk x)) (execNote s tk) := by
  obtain ⟨ty, vi, ln, vs, d, ch⟩ := tk
  unfold execNote withTie
  simp only [Tok.data, Tok.vi, List.length_set]
  by_cases h8 : d.length < 8
  · simp only [h8, if_true]
    exact sameButWritten_refl _
  · simp only [h8, if_false]
    simp only [dataI_set7 d x 0 (by decide), dataI_set7 d x 1 (by decide), dataI_set7 d x 3 (by decide), dataI_set7 d x 4 (by decide),
      dataI_set7 d x 5 (by decide), dataI_set7 d x 6 (by decide), dataS_set7 d x 2 (by decide)]
    apply emitNote_sameButWritten
    · rw [advance_harmony, noteDraws_harmony, hh]
    · exact adv_draw_ok s _ _ _ _ _ hc

end Sakura.Ex2
