import SakuraVerif.Model.Exec
/-! # Invariants of `Model.Exec` that hold for **every** token list

`Loop.step` either moves control or applies the leaf action to one token, so a preorder that every
leaf action respects is respected by every run — any tokens, any nesting, any fuel (no
well-formedness assumption).  Instances: the event history of every track only grows (no command
rewrites what was already written), tracks never disappear; and commands other than `TR`/`TrackSync`
leave all other tracks untouched (C12). -/
namespace Sakura.Ex2
open Sakura Sakura.Lx

/-- one step of the loop machine changes the data by at most one leaf action -/
theorem step_data {α σ} (act : α → σ → σ) (toks : List (Loop.Tok α)) (c c' : Loop.Cfg σ)
    (h : Loop.step act toks c = some c') : c'.2.2 = c.2.2 ∨ ∃ a, Loop.Tok.other a ∈ toks ∧ c'.2.2 = act a c.2.2 := by
  obtain ⟨pos, st, s⟩ := c
  unfold Loop.step at h
  cases ht : toks[pos]? with
  | none => simp [ht] at h
  | some t =>
    cases t with
    | other a => simp only [ht, Option.some.injEq] at h; rw [← h]; exact Or.inr ⟨a, List.mem_of_getElem? ht, rfl⟩
    | lbegin n => simp only [ht, Option.some.injEq] at h; rw [← h]; exact Or.inl rfl
    | lbreak =>
      simp only [ht] at h
      cases st with
      | nil => cases h; exact Or.inl rfl
      | cons it st' =>
        simp only at h
        by_cases h1 : it.count > 0 ∧ it.index = it.count - 1
        · simp only [h1, and_self, if_true] at h
          by_cases h2 : (if it.endPos = 0 then Loop.scanEnd (List.drop pos toks) pos 0 else it.endPos) > 0
          · simp only [h2, if_true] at h; cases h; exact Or.inl rfl
          · simp only [h2, if_false] at h; cases h; exact Or.inl rfl
        · simp only [h1, if_false] at h; cases h; exact Or.inl rfl
    | lend =>
      simp only [ht] at h
      cases st with
      | nil => cases h; exact Or.inl rfl
      | cons it st' =>
        simp only at h
        split at h <;> (cases h; exact Or.inl rfl)

/-- a reflexive, transitive relation respected by the leaf action on every token of the list is respected by every run -/
theorem runFuel_rel {α σ} (act : α → σ → σ) (R : σ → σ → Prop) (hr : ∀ s, R s s) (ht : ∀ a b c, R a b → R b c → R a c)
    (toks : List (Loop.Tok α)) (ha : ∀ a, Loop.Tok.other a ∈ toks → ∀ s, R s (act a s)) :
    ∀ (F : Nat) (c : Loop.Cfg σ) (s' : σ), Loop.runFuel act toks F c = some s' → R c.2.2 s' := by
  intro F
  induction F with
  | zero => intro c s' h; simp [Loop.runFuel] at h
  | succ F ih =>
    intro c s' h
    simp only [Loop.runFuel] at h
    cases hs : Loop.step act toks c with
    | none => simp [hs] at h; subst h; exact hr _
    | some c1 =>
      simp only [hs] at h
      have h1 := ih c1 s' h
      rcases step_data act toks c c1 hs with e | ⟨a, hm, e⟩
      · rw [e] at h1; exact h1
      · rw [e] at h1; exact ht _ _ _ (ha a hm _) h1

end Sakura.Ex2

namespace Sakura.Ex2
open Sakura Sakura.Lx

/-- the history of every existing track is extended, never rewritten; tracks never disappear -/
def Mono (s s' : Song) : Prop :=
  ∀ (i : Nat) (t : Trk), s.tracks[i]? = some t → ∃ t' : Trk, s'.tracks[i]? = some t' ∧ t.events <+: t'.events

theorem Mono.refl (s : Song) : Mono s s := fun _ t h => ⟨t, h, List.prefix_refl _⟩

theorem Mono.trans {a b c : Song} (h1 : Mono a b) (h2 : Mono b c) : Mono a c := by
  intro i t ht
  obtain ⟨t1, e1, p1⟩ := h1 i t ht
  obtain ⟨t2, e2, p2⟩ := h2 i t1 e1
  exact ⟨t2, e2, p1.trans p2⟩

/-- changing only song-level fields -/
theorem Mono.of_tracks_eq {s s' : Song} (h : s'.tracks = s.tracks) : Mono s s' := by
  intro i t ht; exact ⟨t, by rw [h]; exact ht, List.prefix_refl _⟩

theorem Mono.setT (s : Song) (t : Trk) (h : s.t.events <+: t.events) : Mono s (s.setT t) := by
  intro i x hx
  simp only [Song.setT, List.getElem?_set]
  by_cases hi : s.cur = i
  · subst hi
    have hlt : s.cur < s.tracks.length := by
      rcases Nat.lt_or_ge s.cur s.tracks.length with h1 | h1
      · exact h1
      · rw [List.getElem?_eq_none h1] at hx; cases hx
    simp only [hlt, if_true]
    refine ⟨t, rfl, ?_⟩
    have : s.t = x := by
      simp only [Song.t, List.getD_eq_getElem?_getD, hx, Option.getD_some]
    rw [← this]; exact h
  · simp only [hi, if_false]
    exact ⟨x, hx, List.prefix_refl _⟩

end Sakura.Ex2

namespace Sakura.Ex2
open Sakura Sakura.Lx

/-! ## C12: commands other than `TR` / `TrackSync` touch only the current track -/

/-- the current track stays selected and every other track is untouched (state and events) -/
def Indep (s s' : Song) : Prop :=
  s'.cur = s.cur ∧ s'.tracks.length = s.tracks.length ∧ ∀ i : Nat, i ≠ s.cur → s'.tracks[i]? = s.tracks[i]?

theorem Indep.refl (s : Song) : Indep s s := ⟨rfl, rfl, fun _ _ => rfl⟩

theorem Indep.trans {a b c : Song} (h1 : Indep a b) (h2 : Indep b c) : Indep a c := by
  obtain ⟨c1, l1, t1⟩ := h1
  obtain ⟨c2, l2, t2⟩ := h2
  exact ⟨c2.trans c1, l2.trans l1, fun i hi => (t2 i (by rw [c1]; exact hi)).trans (t1 i hi)⟩

theorem Indep.setT (s : Song) (t : Trk) : Indep s (s.setT t) := by
  refine ⟨rfl, by simp [Song.setT], fun i hi => ?_⟩
  simp only [Song.setT, List.getElem?_set]
  simp [Ne.symm hi]

/-- only song-level fields changed -/
theorem Indep.of_eq {s s' : Song} (hc : s'.cur = s.cur) (ht : s'.tracks = s.tracks) : Indep s s' :=
  ⟨hc, by rw [ht], fun _ _ => by rw [ht]⟩

/-- the token, and every token inside its children, is neither `Track` nor `TrackSync` -/
def noTrack : Tok → Bool
  | .mk ty _ _ _ _ ch => ty != .track && ty != .trackSync && (match ch with
      | none => true
      | some l => noTrackL l)
where noTrackL : List Tok → Bool
  | [] => true
  | t :: ts => noTrack t && noTrackL ts

end Sakura.Ex2

namespace Sakura.Ex2
open Sakura Sakura.Lx

theorem drawIf_indep (w v : Int) (s : Song) : Indep s (drawIf w v s).2 := by
  unfold drawIf; split
  · exact Indep.of_eq rfl rfl
  · exact Indep.refl _

theorem emitNote_indep (s : Song) (ev : Event) (sl : Int) : Indep s (emitNote s ev sl) := by
  unfold emitNote
  split
  · exact (Indep.setT s _).trans (Indep.of_eq rfl rfl)
  · split
    · exact Indep.setT _ _
    · split <;> exact Indep.setT _ _

theorem execNote_indep (s : Song) (tk : Tok) : Indep s (execNote s tk) := by
  unfold execNote
  split
  · exact Indep.of_eq rfl rfl
  · refine Indep.trans ?_ (emitNote_indep _ _ _)
    have h1 : Indep s (drawIf s.t.qRand (if dataI tk.data 3 = 0 then s.t.qlen else dataI tk.data 3)
        (drawIf s.t.tRand (if dataI tk.data 5 = intMin then s.t.timing else dataI tk.data 5)
          (drawIf s.t.vRand (if dataI tk.data 4 < 0 then s.t.velocity else dataI tk.data 4)
            (if s.t.oRand > 0 then
              ((if s.useKeyShift = true then
                  (if dataI tk.data 6 < 0 then s.t.octave else dataI tk.data 6) * 12 + Int.tmod tk.vi 12 + dataI tk.data 0 +
                    (if dataI tk.data 1 = 0 then s.keyFlag.getD (Int.toNat (Int.tmod tk.vi 12) % 12) 0 else 0) + s.keyShift + s.t.trackKey
                else (if dataI tk.data 6 < 0 then s.t.octave else dataI tk.data 6) * 12 + Int.tmod tk.vi 12 + dataI tk.data 0) +
                  (Reserve.calcRand s.seed 0 s.t.oRand).1 * 12,
                { s with seed := (Reserve.calcRand s.seed 0 s.t.oRand).2 })
            else
              (if s.useKeyShift = true then
                  (if dataI tk.data 6 < 0 then s.t.octave else dataI tk.data 6) * 12 + Int.tmod tk.vi 12 + dataI tk.data 0 +
                    (if dataI tk.data 1 = 0 then s.keyFlag.getD (Int.toNat (Int.tmod tk.vi 12) % 12) 0 else 0) + s.keyShift + s.t.trackKey
                else (if dataI tk.data 6 < 0 then s.t.octave else dataI tk.data 6) * 12 + Int.tmod tk.vi 12 + dataI tk.data 0, s)).2).2).2).2 := by
      refine Indep.trans (Indep.trans (Indep.trans ?_ (drawIf_indep _ _ _)) (drawIf_indep _ _ _)) (drawIf_indep _ _ _)
      split
      · exact Indep.of_eq rfl rfl
      · exact Indep.refl _
    split
    · exact (h1.trans (Indep.setT _ _)).trans ((Indep.setT _ _).trans (Indep.of_eq rfl rfl))
    · exact h1.trans (Indep.setT _ _)

end Sakura.Ex2
