import SakuraVerif.Model.Exec
/-! # Invariants of `Model.Exec` that hold for **every** token list

`Loop.step` either moves control or applies the leaf action to one token, so a preorder that every
leaf action respects is respected by every run — any tokens, any nesting, any fuel (no
well-formedness assumption).  Instances: the event history of every track only grows (no command
rewrites what was already written), tracks never disappear; and commands other than `TR`/`TrackSync`
leave all other tracks untouched (C12). -/
namespace Sakura.Ex2
open Sakura Sakura.Lx

/-- one step of the loop machine changes the data by at most one leaf action -/
theorem step_data {α σ} (act : α → σ → σ) (toks : List (Loop.Tok α)) (c c' : Loop.Cfg σ)
    (h : Loop.step act toks c = some c') : c'.2.2 = c.2.2 ∨ ∃ a, Loop.Tok.other a ∈ toks ∧ c'.2.2 = act a c.2.2 := by
  obtain ⟨pos, st, s⟩ := c
  unfold Loop.step at h
  cases ht : toks[pos]? with
  | none => simp [ht] at h
  | some t =>
    cases t with
    | other a => simp only [ht, Option.some.injEq] at h; rw [← h]; exact Or.inr ⟨a, List.mem_of_getElem? ht, rfl⟩
    | lbegin n => simp only [ht, Option.some.injEq] at h; rw [← h]; exact Or.inl rfl
    | lbreak =>
      simp only [ht] at h
      cases st with
      | nil => cases h; exact Or.inl rfl
      | cons it st' =>
        simp only at h
        by_cases h1 : it.count > 0 ∧ it.index = it.count - 1
        · simp only [h1, and_self, if_true] at h
          by_cases h2 : (if it.endPos = 0 then Loop.scanEnd (List.drop pos toks) pos 0 else it.endPos) > 0
          · simp only [h2, if_true] at h; cases h; exact Or.inl rfl
          · simp only [h2, if_false] at h; cases h; exact Or.inl rfl
        · simp only [h1, if_false] at h; cases h; exact Or.inl rfl
    | lend =>
      simp only [ht] at h
      cases st with
      | nil => cases h; exact Or.inl rfl
      | cons it st' =>
        simp only at h
        split at h <;> (cases h; exact Or.inl rfl)

/-- a reflexive, transitive relation respected by the leaf action on every token of the list is respected by every run -/
theorem runFuel_rel {α σ} (act : α → σ → σ) (R : σ → σ → Prop) (hr : ∀ s, R s s) (ht : ∀ a b c, R a b → R b c → R a c)
    (toks : List (Loop.Tok α)) (ha : ∀ a, Loop.Tok.other a ∈ toks → ∀ s, R s (act a s)) :
    ∀ (F : Nat) (c : Loop.Cfg σ) (s' : σ), Loop.runFuel act toks F c = some s' → R c.2.2 s' := by
  intro F
  induction F with
  | zero => intro c s' h; simp [Loop.runFuel] at h
  | succ F ih =>
    intro c s' h
    simp only [Loop.runFuel] at h
    cases hs : Loop.step act toks c with
    | none => simp [hs] at h; subst h; exact hr _
    | some c1 =>
      simp only [hs] at h
      have h1 := ih c1 s' h
      rcases step_data act toks c c1 hs with e | ⟨a, hm, e⟩
      · rw [e] at h1; exact h1
      · rw [e] at h1; exact ht _ _ _ (ha a hm _) h1

end Sakura.Ex2

namespace Sakura.Ex2
open Sakura Sakura.Lx

/-- the history of every existing track is extended, never rewritten; tracks never disappear -/
def Mono (s s' : Song) : Prop :=
  ∀ (i : Nat) (t : Trk), s.tracks[i]? = some t → ∃ t' : Trk, s'.tracks[i]? = some t' ∧ t.events <+: t'.events

theorem Mono.refl (s : Song) : Mono s s := fun _ t h => ⟨t, h, List.prefix_refl _⟩

theorem Mono.trans {a b c : Song} (h1 : Mono a b) (h2 : Mono b c) : Mono a c := by
  intro i t ht
  obtain ⟨t1, e1, p1⟩ := h1 i t ht
  obtain ⟨t2, e2, p2⟩ := h2 i t1 e1
  exact ⟨t2, e2, p1.trans p2⟩

/-- changing only song-level fields -/
theorem Mono.of_tracks_eq {s s' : Song} (h : s'.tracks = s.tracks) : Mono s s' := by
  intro i t ht; exact ⟨t, by rw [h]; exact ht, List.prefix_refl _⟩

theorem Mono.setT (s : Song) (t : Trk) (h : s.t.events <+: t.events) : Mono s (s.setT t) := by
  intro i x hx
  simp only [Song.setT, List.getElem?_set]
  by_cases hi : s.cur = i
  · subst hi
    have hlt : s.cur < s.tracks.length := by
      rcases Nat.lt_or_ge s.cur s.tracks.length with h1 | h1
      · exact h1
      · rw [List.getElem?_eq_none h1] at hx; cases hx
    simp only [hlt, if_true]
    refine ⟨t, rfl, ?_⟩
    have : s.t = x := by
      simp only [Song.t, List.getD_eq_getElem?_getD, hx, Option.getD_some]
    rw [← this]; exact h
  · simp only [hi, if_false]
    exact ⟨x, hx, List.prefix_refl _⟩

end Sakura.Ex2

namespace Sakura.Ex2
open Sakura Sakura.Lx

/-! ## C12: commands other than `TR` / `TrackSync` touch only the current track -/

/-- the current track stays selected and every other track is untouched (state and events) -/
def Indep (s s' : Song) : Prop :=
  s'.cur = s.cur ∧ s'.tracks.length = s.tracks.length ∧ ∀ i : Nat, i ≠ s.cur → s'.tracks[i]? = s.tracks[i]?

theorem Indep.refl (s : Song) : Indep s s := ⟨rfl, rfl, fun _ _ => rfl⟩

theorem Indep.trans {a b c : Song} (h1 : Indep a b) (h2 : Indep b c) : Indep a c := by
  obtain ⟨c1, l1, t1⟩ := h1
  obtain ⟨c2, l2, t2⟩ := h2
  exact ⟨c2.trans c1, l2.trans l1, fun i hi => (t2 i (by rw [c1]; exact hi)).trans (t1 i hi)⟩

theorem Indep.setT (s : Song) (t : Trk) : Indep s (s.setT t) := by
  refine ⟨rfl, by simp [Song.setT], fun i hi => ?_⟩
  simp only [Song.setT, List.getElem?_set]
  simp [Ne.symm hi]

/-- only song-level fields changed -/
theorem Indep.of_eq {s s' : Song} (hc : s'.cur = s.cur) (ht : s'.tracks = s.tracks) : Indep s s' :=
  ⟨hc, by rw [ht], fun _ _ => by rw [ht]⟩

/-- the token, and every token inside its children, is neither `Track` nor `TrackSync` -/
inductive NoTrack : Tok → Prop
  | mk (ty : TT) (vi ln : Int) (vs : Option (List Nat)) (data : List SV) (ch : Option (List Tok)) :
      ty ≠ .track → ty ≠ .trackSync → (∀ l, ch = some l → ∀ a ∈ l, NoTrack a) → NoTrack (.mk ty vi ln vs data ch)

end Sakura.Ex2

namespace Sakura.Ex2
open Sakura Sakura.Lx

theorem drawIf_indep (w v : Int) (s : Song) : Indep s (drawIf w v s).2 := by
  unfold drawIf; split
  · exact Indep.of_eq rfl rfl
  · exact Indep.refl _

theorem emitNote_indep (s : Song) (ev : Event) (sl : Int) : Indep s (emitNote s ev sl) := by
  unfold emitNote
  simp only []
  by_cases h1 : s.harmonyFlag = true
  · simp only [h1, if_true]
    exact (Indep.setT s _).trans (Indep.of_eq rfl rfl)
  · simp only [h1, if_false]
    by_cases h2 : sl ≥ 1
    · rw [if_pos h2]; exact Indep.setT _ _
    · rw [if_neg h2]
      by_cases h3 : s.t.tieNotes ≠ []
      · rw [if_pos h3]; exact Indep.setT _ _
      · rw [if_neg h3]; exact Indep.setT _ _

theorem noteDraws_indep (s : Song) (k v t q : Int) : Indep s (noteDraws s k v t q).2 := by
  unfold noteDraws
  simp only []
  refine Indep.trans (Indep.trans (Indep.trans ?_ (drawIf_indep _ _ _)) (drawIf_indep _ _ _)) (drawIf_indep _ _ _)
  split
  · exact Indep.of_eq rfl rfl
  · exact Indep.refl _

theorem advance_indep (s : Song) (tp : Int) : Indep s (advance s tp) := by
  unfold advance
  simp only []
  split
  · exact (Indep.setT _ _).trans ((Indep.setT _ _).trans (Indep.of_eq rfl rfl))
  · exact Indep.setT _ _

theorem execNote_indep (s : Song) (tk : Tok) : Indep s (execNote s tk) := by
  unfold execNote
  simp only []
  split
  · exact Indep.of_eq rfl rfl
  · exact ((noteDraws_indep _ _ _ _ _).trans (advance_indep _ _)).trans (emitNote_indep _ _ _)

theorem execNoteN_indep (s : Song) (tk : Tok) : Indep s (execNoteN s tk) := by
  unfold execNoteN
  simp only []
  split
  · exact Indep.of_eq rfl rfl
  · exact ((drawIf_indep _ _ _).trans ((drawIf_indep _ _ _).trans (drawIf_indep _ _ _))).trans (Indep.setT _ _)

theorem execHarmonyEnd_indep (s : Song) (tk : Tok) : Indep s (execHarmonyEnd s tk) := by
  unfold execHarmonyEnd
  simp only []
  split
  · exact Indep.refl _
  · exact (Indep.setT _ _).trans (Indep.of_eq rfl rfl)

theorem tempoChange_indep (s : Song) (x : Int) : Indep s (tempoChange s x) := by
  unfold tempoChange
  simp only []
  exact (Indep.setT _ _).trans (Indep.of_eq rfl rfl)

theorem toLoopTok_other (t a : Tok) (h : toLoopTok t = .other a) : a = t := by
  unfold toLoopTok at h
  split at h
  · simp at h
  · simp at h
  · simp at h
  · simp at h; exact h.symm

theorem noTrack_ty (tk : Tok) (h : NoTrack tk) : tk.ty ≠ .track ∧ tk.ty ≠ .trackSync := by
  cases h with
  | mk ty vi ln vs data ch h1 h2 h3 => exact ⟨h1, h2⟩

theorem noTrack_children (tk : Tok) (h : NoTrack tk) (ch : List Tok) (hc : tk.children = some ch) : ∀ a ∈ ch, NoTrack a := by
  cases h with
  | mk ty vi ln vs data c h1 h2 h3 => exact h3 ch hc

/-- a nested `exec` over children without `TR`/`TrackSync` touches only the current track -/
theorem block_indep (F d : Nat) (ih : ∀ (tk : Tok) (s : Song), NoTrack tk → Indep s (leaf F d tk s))
    (ch : List Tok) (hch : ∀ a ∈ ch, NoTrack a) (s0 s' : Song)
    (h : Loop.runFuel (leaf F d) (ch.map toLoopTok) F (0, [], s0) = some s') : Indep s0 s' := by
  refine runFuel_rel (leaf F d) Indep Indep.refl (fun _ _ _ => Indep.trans) _ ?_ F (0, [], s0) s' h
  intro a ha st
  obtain ⟨t, ht, he⟩ := List.mem_map.mp ha
  have := toLoopTok_other t a he
  subst this
  exact ih _ st (hch _ ht)

/-- **C12 on the runner model**: a token that is neither `TR` nor `TrackSync` (nor contains one) changes nothing outside the current
    track — whatever the token, its arguments and the nesting of its children, for any fuel -/
theorem leaf_indep (F : Nat) : ∀ (d : Nat) (tk : Tok) (s : Song), NoTrack tk → Indep s (leaf F d tk s) := by
  intro d
  induction d with
  | zero =>
    intro tk s hn
    have hty := noTrack_ty tk hn
    unfold leaf
    split
    · exact Indep.refl _
    · split
      all_goals first
        | exact Indep.refl _
        | exact Indep.setT _ _
        | exact Indep.of_eq rfl rfl
        | exact execNote_indep _ _
        | exact execNoteN_indep _ _
        | exact execHarmonyEnd_indep _ _
        | (rename_i heq; exact absurd heq hty.1)
        | (rename_i heq; exact absurd heq hty.2)
        | skip
      all_goals (simp only [])
      all_goals repeat' (first
        | exact Indep.refl _
        | exact Indep.setT _ _
        | exact Indep.of_eq rfl rfl
        | exact (Indep.setT _ _).trans (Indep.of_eq rfl rfl)
        | exact tempoChange_indep _ _
        | split)
  | succ d ih =>
    intro tk s hn
    have hty := noTrack_ty tk hn
    by_cases hb : s.bad = true
    · unfold leaf; simp only [hb, if_true]; exact Indep.refl _
    by_cases hsub : tk.ty = .sub
    · unfold leaf
      simp only [hb, Bool.false_eq_true, if_false, hsub]
      cases hc : tk.children with
      | none => exact Indep.of_eq rfl rfl
      | some ch =>
        simp only []
        cases hr : Loop.runFuel (leaf F d) (ch.map toLoopTok) F (0, [], s) with
        | none => exact Indep.of_eq rfl rfl
        | some s' =>
          have hi := block_indep F d ih ch (noTrack_children tk hn ch hc) s s' hr
          simp only []
          split
          · exact hi
          · exact hi.trans (Indep.setT _ _)
    by_cases hdiv : tk.ty = .div
    · unfold leaf
      simp only [hb, Bool.false_eq_true, if_false, hdiv]
      cases hc : tk.children with
      | none => exact Indep.of_eq rfl rfl
      | some ch =>
        simp only []
        generalize hs0 : s.setT _ = s0
        have h0 : Indep s s0 := hs0 ▸ Indep.setT _ _
        cases hr : Loop.runFuel (leaf F d) (ch.map toLoopTok) F (0, [], s0) with
        | none => exact Indep.of_eq rfl rfl
        | some s' =>
          have hi := h0.trans (block_indep F d ih ch (noTrack_children tk hn ch hc) s0 s' hr)
          simp only []
          split
          · exact hi
          · exact hi.trans (Indep.setT _ _)
    unfold leaf
    split
    · exact Indep.refl _
    · split
      all_goals first
        | exact Indep.refl _
        | exact Indep.setT _ _
        | exact Indep.of_eq rfl rfl
        | exact execNote_indep _ _
        | exact execNoteN_indep _ _
        | exact execHarmonyEnd_indep _ _
        | (rename_i heq; exact absurd heq hty.1)
        | (rename_i heq; exact absurd heq hty.2)
        | (rename_i heq; exact absurd heq hsub)
        | (rename_i heq; exact absurd heq hdiv)
        | skip
      all_goals (simp only [])
      all_goals repeat' (first
        | exact Indep.refl _
        | exact Indep.setT _ _
        | exact Indep.of_eq rfl rfl
        | exact (Indep.setT _ _).trans (Indep.of_eq rfl rfl)
        | exact tempoChange_indep _ _
        | split)

/-- **tracks are independent (C12, runner model)**: running any token list that contains no `TR` / `TrackSync` (at any depth) leaves the
    selected track selected and every other track — pointer, settings and events — exactly as it was; any tokens, any nesting, any fuel -/
theorem exec_indep (F D : Nat) (toks : List Tok) (h : ∀ a ∈ toks, NoTrack a) (s s' : Song)
    (he : exec F D toks s = some s') : Indep s s' :=
  block_indep F D (leaf_indep F D) toks h s s' he

/-! ## C06 on the runner model: `Sub` restores the pointer, a tuplet advances by exactly its length and restores the default length -/

theorem setT_t' (s : Song) (t : Trk) (h : s.cur < s.tracks.length) : (s.setT t).t = t := by
  simp [Song.t, Song.setT, h]

/-- `Sub{X}`: whatever `X` is (no `TR`/`TrackSync` inside), if the block runs to its end the time pointer is where it was -/
theorem sub_restores_pointer (F d : Nat) (data : List SV) (vi ln : Int) (vs : Option (List Nat)) (ch : List Tok)
    (hch : ∀ a ∈ ch, NoTrack a) (s : Song) (hc : s.cur < s.tracks.length) (hb : s.bad = false)
    (hok : (leaf F (d + 1) (.mk .sub vi ln vs data (some ch)) s).bad = false) :
    (leaf F (d + 1) (.mk .sub vi ln vs data (some ch)) s).t.timepos = s.t.timepos := by
  unfold leaf at hok ⊢
  simp only [hb, Bool.false_eq_true, if_false, Tok.ty, Tok.children] at hok ⊢
  cases hr : Loop.runFuel (leaf F d) (ch.map toLoopTok) F (0, [], s) with
  | none => simp [hr] at hok
  | some s' =>
    have hi := block_indep F d (leaf_indep F d) ch hch s s' hr
    simp only [hr] at hok ⊢
    by_cases hb' : s'.bad = true
    · simp [hb'] at hok
    · simp only [hb', Bool.false_eq_true, if_false]
      rw [setT_t' _ _ (by rw [hi.1, hi.2.1]; exact hc)]

/-- `{X}L`: if the block runs to its end the pointer has advanced by exactly the tuplet's length and the default length is restored -/
theorem div_advances_exactly (F d : Nat) (lenS : List Nat) (vi ln : Int) (vs : Option (List Nat)) (ch : List Tok)
    (hch : ∀ a ∈ ch, NoTrack a) (s : Song) (hc : s.cur < s.tracks.length) (hb : s.bad = false)
    (hok : (leaf F (d + 1) (.mk .div vi ln vs [.str lenS] (some ch)) s).bad = false) :
    (leaf F (d + 1) (.mk .div vi ln vs [.str lenS] (some ch)) s).t.timepos = s.t.timepos + Len.calcLength s.tb s.t.length lenS ∧
    (leaf F (d + 1) (.mk .div vi ln vs [.str lenS] (some ch)) s).t.length = s.t.length := by
  unfold leaf at hok ⊢
  simp only [hb, Bool.false_eq_true, if_false, Tok.ty, Tok.children, Tok.data, Tok.vi, dataS, List.getD_cons_zero, SV.toS] at hok ⊢
  generalize hs0 : s.setT _ = s0 at hok ⊢
  have h0 : Indep s s0 := hs0 ▸ Indep.setT _ _
  cases hr : Loop.runFuel (leaf F d) (ch.map toLoopTok) F (0, [], s0) with
  | none => simp [hr] at hok
  | some s' =>
    have hi := h0.trans (block_indep F d (leaf_indep F d) ch hch s0 s' hr)
    simp only [hr] at hok ⊢
    by_cases hb' : s'.bad = true
    · simp [hb'] at hok
    · simp only [hb', Bool.false_eq_true, if_false]
      rw [setT_t' _ _ (by rw [hi.1, hi.2.1]; exact hc)]
      exact ⟨rfl, rfl⟩

#print axioms exec_indep
end Sakura.Ex2
