import SakuraVerif.Model.DumpText
import SakuraVerif.Spec.Smf
import SakuraVerif.Lemmas.Dump
/-! # The literal dump walker lists every event of a well-formed track at its true position

`encTrack evs` is the byte form of an event list (canonical delta, explicit status, one-byte lengths); `absLines` is the
list of lines the property asks for.  `trackGo_enc`: on `pre ++ encTrack evs ++ post` the literal loop of `dump_midi`
prints exactly `absLines`, stops at the end of the track body and has seen End-of-Track. -/
namespace Sakura.Dt
open Sakura Sakura.Spec

theorem byteAt_pre (pre l : List Nat) (k : Nat) : byteAt (pre ++ l) (pre.length + k) = byteAt l k := by
  simp [byteAt, List.getD_eq_getElem?_getD, List.getElem?_append_right]

theorem byteAt_pre0 (pre l : List Nat) : byteAt (pre ++ l) pre.length = byteAt l 0 := by
  simpa using byteAt_pre pre l 0

@[simp] theorem byteAt_cons_zero (x : Nat) (l : List Nat) : byteAt (x :: l) 0 = x := by simp [byteAt]
@[simp] theorem byteAt_cons_succ (x : Nat) (l : List Nat) (k : Nat) : byteAt (x :: l) (k + 1) = byteAt l k := by simp [byteAt]


/-! ## byte form of messages, the lines they must produce -/

def encMsg : Msg → List Nat
  | .noteOff ch k v => [0x80 + ch, k, v]
  | .noteOn ch k v => [0x90 + ch, k, v]
  | .polyAt ch k v => [0xA0 + ch, k, v]
  | .cc ch c v => [0xB0 + ch, c, v]
  | .prog ch p => [0xC0 + ch, p]
  | .chanAt ch v => [0xD0 + ch, v]
  | .bend ch l m => [0xE0 + ch, l, m]
  | .metaM ty d => 0xFF :: ty :: d.length :: d
  | .sysex d => 0xF0 :: (encodeDelta d.length ++ d)

/-- messages as the standard allows them and with the one-byte lengths the dump reads -/
def WF : Msg → Prop
  | .noteOff ch k v | .noteOn ch k v | .polyAt ch k v | .cc ch k v => ch < 16 ∧ k < 128 ∧ v < 128
  | .prog ch p | .chanAt ch p => ch < 16 ∧ p < 128
  | .bend ch l m => ch < 16 ∧ l < 128 ∧ m < 128
  | .metaM ty d => ty < 128 ∧ d.length < 128 ∧ (ty = 0x51 → d.length = 3) ∧ (ty = 0x58 → 2 ≤ d.length)
  | .sysex _ => True      -- any length (the field is a variable-length quantity), any data bytes, F7 included

def payload (d : List Nat) : String :=
  match utf8Strict (d.length + 1) d with
  | some cs => String.ofList (cs.map Char.ofNat)
  | none => String.ofList (d.map Char.ofNat)

def metaText (ty : Nat) (d : List Nat) : String :=
  if ty = 0x2F then "/* __END_OF_TRACK__ */"
  else if ty = 0x51 then
    s!"Tempo={if d.getD 0 0 * 65536 + d.getD 1 0 * 256 + d.getD 2 0 = 0 then 0 else 60000000 / (d.getD 0 0 * 65536 + d.getD 1 0 * 256 + d.getD 2 0)}"
  else if ty = 0x58 then s!"TimeSig={d.getD 0 0}/{pow2w (d.getD 1 0)}"
  else metaNameOf ty d.length ++ "{" ++ payload d ++ "};"

def sysexJoin : List Nat → String
  | [] => ""
  | [x] => hex2U x
  | x :: y :: r => hex2U x ++ "," ++ sysexJoin (y :: r)

/-- what the dump shows for a message: kind and values as written -/
def textOf : Msg → String
  | .noteOff _ k v => s!"NoteOff(${hex2 k},${hex2 v}) // {noteName k}"
  | .noteOn _ k v => s!"NoteOn(${hex2 k},${hex2 v})  // {noteName k},,{v}"
  | .polyAt ch k v => s!"DirectSMF(${hex2 (0xA0 + ch)},${hex2 k},${hex2 v})"
  | .cc _ c v => s!"CC(${hex2 c},${hex2 v})"
  | .prog ch p => s!"Voice({p + 1}) // ${hex2 (0xC0 + ch)},${hex2 p}"
  | .chanAt ch v => s!"DirectSMF(${hex2 (0xD0 + ch)},${hex2 v}) // Channel after touch"
  | .bend _ l m => s!"PitchBend({((m * 128 + l : Nat) : Int) - 8192}) /* p{m} */"
  | .metaM ty d => metaText ty d
  | .sysex d => "SysEx$=" ++ ("F0," ++ "/*len:" ++ hexUp d.length ++ "*/" ++ sysexJoin d) ++ ";"

/-- the reader state after a message -/
def upd (info : Info) : Msg → Info
  | .metaM ty d =>
    if ty = 0x2F then { info with eot := true }
    else if ty = 0x58 then { info with frac := d.getD 0 0, deno := pow2w (d.getD 1 0) }
    else info
  | _ => info

theorem status_hi (base ch : Nat) (hb : base % 16 = 0) (hc : ch < 16) : (base + ch) / 16 * 16 = base := by omega

theorem eventStep_chan3 (pre rest : List Nat) (info : Info) (st k v : Nat) :
    byteAt (pre ++ (st :: k :: v :: rest)) pre.length = st ∧ byteAt (pre ++ (st :: k :: v :: rest)) (pre.length + 1) = k ∧
    byteAt (pre ++ (st :: k :: v :: rest)) (pre.length + 2) = v := by
  refine ⟨?_, ?_, ?_⟩
  · rw [byteAt_pre0]; simp
  · rw [byteAt_pre]; simp
  · rw [byteAt_pre]; simp


theorem eventStep_noteOff (pre rest : List Nat) (info : Info) (ch k v : Nat) (hc : ch < 16) :
    eventStep (pre ++ (encMsg (.noteOff ch k v) ++ rest)) pre.length info =
      (textOf (.noteOff ch k v), pre.length + (encMsg (.noteOff ch k v)).length, upd info (.noteOff ch k v)) := by
  obtain ⟨h0, h1, h2⟩ := eventStep_chan3 pre rest info (0x80 + ch) k v
  have hs : (0x80 + ch) / 16 * 16 = 0x80 := by omega
  simp only [encMsg, List.cons_append, List.nil_append, eventStep, h0, h1, h2, hs, textOf, upd, List.length_cons, List.length_nil]
  simp

theorem eventStep_noteOn (pre rest : List Nat) (info : Info) (ch k v : Nat) (hc : ch < 16) :
    eventStep (pre ++ (encMsg (.noteOn ch k v) ++ rest)) pre.length info =
      (textOf (.noteOn ch k v), pre.length + (encMsg (.noteOn ch k v)).length, upd info (.noteOn ch k v)) := by
  obtain ⟨h0, h1, h2⟩ := eventStep_chan3 pre rest info (0x90 + ch) k v
  have hs : (0x90 + ch) / 16 * 16 = 0x90 := by omega
  simp only [encMsg, List.cons_append, List.nil_append, eventStep, h0, h1, h2, hs, textOf, upd, List.length_cons, List.length_nil]
  simp

theorem eventStep_polyAt (pre rest : List Nat) (info : Info) (ch k v : Nat) (hc : ch < 16) :
    eventStep (pre ++ (encMsg (.polyAt ch k v) ++ rest)) pre.length info =
      (textOf (.polyAt ch k v), pre.length + (encMsg (.polyAt ch k v)).length, upd info (.polyAt ch k v)) := by
  obtain ⟨h0, h1, h2⟩ := eventStep_chan3 pre rest info (0xA0 + ch) k v
  have hs : (0xA0 + ch) / 16 * 16 = 0xA0 := by omega
  simp only [encMsg, List.cons_append, List.nil_append, eventStep, h0, h1, h2, hs, textOf, upd, List.length_cons, List.length_nil]
  simp

theorem eventStep_cc (pre rest : List Nat) (info : Info) (ch k v : Nat) (hc : ch < 16) :
    eventStep (pre ++ (encMsg (.cc ch k v) ++ rest)) pre.length info =
      (textOf (.cc ch k v), pre.length + (encMsg (.cc ch k v)).length, upd info (.cc ch k v)) := by
  obtain ⟨h0, h1, h2⟩ := eventStep_chan3 pre rest info (0xB0 + ch) k v
  have hs : (0xB0 + ch) / 16 * 16 = 0xB0 := by omega
  simp only [encMsg, List.cons_append, List.nil_append, eventStep, h0, h1, h2, hs, textOf, upd, List.length_cons, List.length_nil]
  simp

theorem eventStep_prog (pre rest : List Nat) (info : Info) (ch p : Nat) (hc : ch < 16) :
    eventStep (pre ++ (encMsg (.prog ch p) ++ rest)) pre.length info =
      (textOf (.prog ch p), pre.length + (encMsg (.prog ch p)).length, upd info (.prog ch p)) := by
  have h0 : byteAt (pre ++ ((0xC0 + ch) :: p :: rest)) pre.length = 0xC0 + ch := by rw [byteAt_pre0]; simp
  have h1 : byteAt (pre ++ ((0xC0 + ch) :: p :: rest)) (pre.length + 1) = p := by rw [byteAt_pre]; simp
  have hs : (0xC0 + ch) / 16 * 16 = 0xC0 := by omega
  simp only [encMsg, List.cons_append, List.nil_append, eventStep, h0, h1, hs, textOf, upd, List.length_cons, List.length_nil]
  simp

theorem eventStep_chanAt (pre rest : List Nat) (info : Info) (ch p : Nat) (hc : ch < 16) :
    eventStep (pre ++ (encMsg (.chanAt ch p) ++ rest)) pre.length info =
      (textOf (.chanAt ch p), pre.length + (encMsg (.chanAt ch p)).length, upd info (.chanAt ch p)) := by
  have h0 : byteAt (pre ++ ((0xD0 + ch) :: p :: rest)) pre.length = 0xD0 + ch := by rw [byteAt_pre0]; simp
  have h1 : byteAt (pre ++ ((0xD0 + ch) :: p :: rest)) (pre.length + 1) = p := by rw [byteAt_pre]; simp
  have hs : (0xD0 + ch) / 16 * 16 = 0xD0 := by omega
  simp only [encMsg, List.cons_append, List.nil_append, eventStep, h0, h1, hs, textOf, upd, List.length_cons, List.length_nil]
  simp

theorem eventStep_bend (pre rest : List Nat) (info : Info) (ch l m : Nat) (hc : ch < 16) (hl : l < 128) (hm : m < 128) :
    eventStep (pre ++ (encMsg (.bend ch l m) ++ rest)) pre.length info =
      (textOf (.bend ch l m), pre.length + (encMsg (.bend ch l m)).length, upd info (.bend ch l m)) := by
  obtain ⟨h0, h1, h2⟩ := eventStep_chan3 pre rest info (0xE0 + ch) l m
  have hs : (0xE0 + ch) / 16 * 16 = 0xE0 := by omega
  have hor : (m <<< 7) ||| l = m * 128 + l := by
    rw [← Nat.shiftLeft_add_eq_or_of_lt (by simpa using hl), Nat.shiftLeft_eq]
  have hpb : (m * 128 + l) / 128 % 128 = m := by omega
  simp only [encMsg, List.cons_append, List.nil_append, eventStep, h0, h1, h2, hs, textOf, upd, List.length_cons, List.length_nil, hor, hpb]
  simp


theorem byteAt_payload (pre d rest : List Nat) (a b c : Nat) (i : Nat) (hi : i < d.length) :
    byteAt (pre ++ (a :: b :: c :: (d ++ rest))) (pre.length + (3 + i)) = d.getD i 0 := by
  rw [byteAt_pre]
  have : 3 + i = i + 1 + 1 + 1 := by omega
  rw [this, byteAt_cons_succ, byteAt_cons_succ, byteAt_cons_succ]
  simp [byteAt, List.getD_eq_getElem?_getD, List.getElem?_append_left hi]

theorem readStr_payload (pre d rest : List Nat) (a b c : Nat) :
    readStr (pre ++ (a :: b :: c :: (d ++ rest))) (pre.length + 3) d.length = payload d := by
  have e : pre ++ (a :: b :: c :: (d ++ rest)) = (pre ++ [a, b, c]) ++ (d ++ rest) := by simp
  have hl : (pre ++ [a, b, c]).length = pre.length + 3 := by simp
  unfold readStr payload
  have hmin : min (pre.length + 3 + d.length) (pre ++ (a :: b :: c :: (d ++ rest))).length = pre.length + 3 + d.length := by
    simp only [List.length_append, List.length_cons]; omega
  have hmin2 : min (pre.length + 3) (pre.length + 3 + d.length) = pre.length + 3 := by omega
  rw [hmin]
  simp only [hmin2]
  have ht : ((pre ++ (a :: b :: c :: (d ++ rest))).take (pre.length + 3 + d.length)).drop (pre.length + 3) = d := by
    rw [e, ← hl, List.take_length_add_append, List.take_left, List.drop_left]
  rw [ht]
  rfl


theorem eventStep_meta (pre rest : List Nat) (info : Info) (ty : Nat) (d : List Nat) (h : WF (.metaM ty d)) :
    eventStep (pre ++ (encMsg (.metaM ty d) ++ rest)) pre.length info =
      (textOf (.metaM ty d), pre.length + (encMsg (.metaM ty d)).length, upd info (.metaM ty d)) := by
  obtain ⟨_, _, h51, h58⟩ := h
  have e : pre ++ (encMsg (.metaM ty d) ++ rest) = pre ++ (0xFF :: ty :: d.length :: (d ++ rest)) := by simp [encMsg]
  obtain ⟨h0, h1, h2⟩ := eventStep_chan3 pre (d ++ rest) info 0xFF ty d.length
  have hlen : pre.length + (encMsg (.metaM ty d)).length = pre.length + 3 + d.length := by simp [encMsg]; omega
  rw [e, hlen]
  simp only [eventStep, h0, h1, h2, show (0xFF : Nat) / 16 * 16 = 0xF0 by decide]
  simp (config := { decide := true }) only [if_false, if_true, metaStep, h0, h1, h2]
  by_cases t1 : ty = 0x2F
  · subst t1; simp [textOf, metaText, upd]
  · by_cases t2 : ty = 0x51
    · subst t2
      have hl := h51 rfl
      have b0 := byteAt_payload pre d rest 0xFF 0x51 d.length 0 (by omega)
      have b1 := byteAt_payload pre d rest 0xFF 0x51 d.length 1 (by omega)
      have b2 := byteAt_payload pre d rest 0xFF 0x51 d.length 2 (by omega)
      simp only [Nat.add_zero] at b0
      simp (config := { decide := true }) only [if_false, if_true, b0, b1, b2, ← Nat.add_assoc, textOf, metaText, upd]
    · by_cases t3 : ty = 0x58
      · subst t3
        have hl := h58 rfl
        have b0 := byteAt_payload pre d rest 0xFF 0x58 d.length 0 (by omega)
        have b1 := byteAt_payload pre d rest 0xFF 0x58 d.length 1 (by omega)
        simp only [Nat.add_zero] at b0
        simp (config := { decide := true }) only [if_false, if_true, b0, b1, ← Nat.add_assoc, textOf, metaText, upd]
      · simp only [t1, t2, t3, if_false, textOf, metaText, upd, readStr_payload]


theorem sysexData_enc (d : List Nat) : ∀ (pre rest : List Nat) (m : String),
    sysexData (pre ++ (d ++ rest)) d.length pre.length m = (m ++ sysexJoin d, pre.length + d.length) := by
  induction d with
  | nil => intro pre rest m; simp [sysexData, sysexJoin]
  | cons x r ih =>
    intro pre rest m
    have hlt : pre.length < (pre ++ (x :: r ++ rest)).length := by simp
    have hx : byteAt (pre ++ (x :: r ++ rest)) pre.length = x := by rw [byteAt_pre0]; simp
    have e : pre ++ (x :: r ++ rest) = (pre ++ [x]) ++ (r ++ rest) := by simp
    have hl : (pre ++ [x]).length = pre.length + 1 := by simp
    simp only [List.length_cons, sysexData, hlt, if_true, hx]
    rw [e, ← hl, ih (pre ++ [x]) rest]
    cases r with
    | nil => simp [sysexJoin]
    | cons y r' =>
      simp only [List.length_cons, Nat.add_one_ne_zero, if_false, sysexJoin, String.append_assoc, hl]
      congr 1
      omega


theorem eventStep_sysex (pre rest : List Nat) (info : Info) (d : List Nat) (_h : WF (.sysex d)) :
    eventStep (pre ++ (encMsg (.sysex d) ++ rest)) pre.length info =
      (textOf (.sysex d), pre.length + (encMsg (.sysex d)).length, upd info (.sysex d)) := by
  have e : pre ++ (encMsg (.sysex d) ++ rest) = (pre ++ [0xF0]) ++ encodeDelta d.length ++ (d ++ rest) := by
    simp [encMsg]
  have h0 : byteAt (pre ++ (encMsg (.sysex d) ++ rest)) pre.length = 0xF0 := by rw [byteAt_pre0]; simp [encMsg]
  have hl1 : (pre ++ [0xF0]).length = pre.length + 1 := by simp
  simp only [eventStep, h0, show (0xF0 : Nat) / 16 * 16 = 0xF0 by decide]
  simp (config := { decide := true }) only [if_false, if_true, metaStep, h0]
  have hrd := readDelta_inverts d.length (pre ++ [0xF0]) (d ++ rest) ((pre ++ (encMsg (.sysex d) ++ rest)).length)
    (by rw [e]; simp only [List.length_append]; omega)
  rw [← e, hl1] at hrd
  rw [hrd]
  simp only []
  have e2 : pre ++ (encMsg (.sysex d) ++ rest) = (pre ++ [0xF0] ++ encodeDelta d.length) ++ (d ++ rest) := by
    simp [encMsg]
  have hl2 : (pre ++ [0xF0] ++ encodeDelta d.length).length = pre.length + 1 + (encodeDelta d.length).length := by
    simp only [List.length_append, List.length_cons, List.length_nil]
  rw [e2, ← hl2, sysexData_enc d (pre ++ [0xF0] ++ encodeDelta d.length) rest]
  refine Prod.ext ?_ (Prod.ext ?_ rfl)
  · simp only [textOf, String.append_assoc]
  · simp only [hl2, encMsg, List.length_cons, List.length_append]; omega


theorem eventStep_enc (m : Msg) (h : WF m) (pre rest : List Nat) (info : Info) :
    eventStep (pre ++ (encMsg m ++ rest)) pre.length info = (textOf m, pre.length + (encMsg m).length, upd info m) := by
  cases m with
  | noteOff ch k v => exact eventStep_noteOff pre rest info ch k v h.1
  | noteOn ch k v => exact eventStep_noteOn pre rest info ch k v h.1
  | polyAt ch k v => exact eventStep_polyAt pre rest info ch k v h.1
  | cc ch k v => exact eventStep_cc pre rest info ch k v h.1
  | prog ch p => exact eventStep_prog pre rest info ch p h.1
  | chanAt ch p => exact eventStep_chanAt pre rest info ch p h.1
  | bend ch l m => exact eventStep_bend pre rest info ch l m h.1 h.2.1 h.2.2
  | metaM ty d => exact eventStep_meta pre rest info ty d h
  | sysex d => exact eventStep_sysex pre rest info d h

/-! ## the track loop -/

def encEv (e : Nat × Msg) : List Nat := encodeDelta e.1 ++ encMsg e.2

def encTrack : List (Nat × Msg) → List Nat
  | [] => []
  | e :: r => encEv e ++ encTrack r

/-- one line of the dump: the position of an absolute time under the signature in force, then the event's text -/
def lineOf (tb : Nat) (info : Info) (time : Nat) (txt : String) : String :=
  s!"TIME({pad3 (time / beatBase tb info.deno / (if info.frac = 0 then 1 else info.frac) + 1)}:{pad3 (time / beatBase tb info.deno % (if info.frac = 0 then 1 else info.frac) + 1)}:{pad3 (time % beatBase tb info.deno)}) {txt}"

/-- the lines the property asks for: one per event, in file order, at the running sum of the delta times -/
def absLines (tb : Nat) : Info → Nat → List (Nat × Msg) → List String
  | _, _, [] => []
  | info, t, (d, m) :: r => lineOf tb info (t + d) (textOf m) :: absLines tb (upd info m) (t + d) r

def updAll : Info → List (Nat × Msg) → Info
  | info, [] => info
  | info, (_, m) :: r => updAll (upd info m) r

def total : List (Nat × Msg) → Nat
  | [] => 0
  | (d, _) :: r => d + total r

theorem encMsg_ne_nil (m : Msg) : encMsg m ≠ [] := by cases m <;> simp [encMsg]

theorem trackGo_run (tb : Nat) (evs : List (Nat × Msg)) (hw : ∀ e ∈ evs, WF e.2) :
    ∀ (pre post : List Nat) (t : Nat) (info : Info) (acc : List String) (f E : Nat),
      pre.length + (encTrack evs).length ≤ E → t + total evs < 18446744073709551616 →
      trackGo (pre ++ (encTrack evs ++ post)) tb (f + evs.length) pre.length E t info acc =
        trackGo (pre ++ (encTrack evs ++ post)) tb f (pre.length + (encTrack evs).length) E (t + total evs) (updAll info evs)
          (acc ++ absLines tb info t evs) := by
  induction evs with
  | nil => intro pre post t info acc f E _ _; simp [encTrack, total, updAll, absLines]
  | cons e r ih =>
    intro pre post t info acc f E hE ht
    obtain ⟨d, m⟩ := e
    have hwm : WF m := hw (d, m) List.mem_cons_self
    have hwr : ∀ e ∈ r, WF e.2 := fun e he => hw e (List.mem_cons_of_mem _ he)
    simp only [encTrack, encEv, total, List.length_append] at hE ht ⊢
    have hm0 := encMsg_ne_nil m
    have hmlen : 0 < (encMsg m).length := List.length_pos_iff.mpr hm0
    -- the byte vector, re-associated
    have e1 : pre ++ (encodeDelta d ++ encMsg m ++ encTrack r ++ post) = pre ++ encodeDelta d ++ (encMsg m ++ (encTrack r ++ post)) := by simp
    have hcond : (pre.length < E ∨ info.eot = false) ∧ pre.length < (pre ++ (encodeDelta d ++ encMsg m ++ encTrack r ++ post)).length := by
      constructor
      · left; omega
      · simp only [List.length_append]; omega
    rw [show f + ((d, m) :: r).length = (f + r.length) + 1 by simp only [List.length_cons]; omega, trackGo]
    rw [if_pos hcond]
    have hrd : readDelta (pre ++ (encodeDelta d ++ encMsg m ++ encTrack r ++ post)) ((pre ++ (encodeDelta d ++ encMsg m ++ encTrack r ++ post)).length + 1) pre.length 0 =
        (d, pre.length + (encodeDelta d).length) := by
      rw [e1]
      exact readDelta_inverts d pre (encMsg m ++ (encTrack r ++ post)) _ (by simp only [List.length_append]; omega)
    simp only [hrd]
    have htime : (t + d) % 18446744073709551616 = t + d := Nat.mod_eq_of_lt (by omega)
    rw [htime]
    have hev := eventStep_enc m hwm (pre ++ encodeDelta d) (encTrack r ++ post) info
    rw [List.length_append] at hev
    rw [e1, hev]
    simp only []
    have e2 : pre ++ encodeDelta d ++ (encMsg m ++ (encTrack r ++ post)) = (pre ++ encodeDelta d ++ encMsg m) ++ (encTrack r ++ post) := by simp
    have hl2 : (pre ++ encodeDelta d ++ encMsg m).length = pre.length + (encodeDelta d).length + (encMsg m).length := by simp only [List.length_append]
    rw [e2, ← hl2, ih hwr (pre ++ encodeDelta d ++ encMsg m) post (t + d) (upd info m) _ f E (by rw [hl2]; omega) (by omega)]
    simp only [updAll, absLines, lineOf, List.append_assoc, List.cons_append, List.nil_append, Nat.add_assoc, List.length_append]


/-- **the walker on a well-formed track**: started at the first byte of the body of a track whose events are `evs` (the last one
    End-of-Track), the loop of `dump_midi` prints exactly one line per event, in order, each at the running sum of the delta
    times under the signature in force, and stops exactly at the end of the body. -/
theorem trackGo_enc (tb : Nat) (evs : List (Nat × Msg)) (hw : ∀ e ∈ evs, WF e.2) (pre post : List Nat) (info : Info)
    (heot : (updAll info evs).eot = true) (ht : total evs < 18446744073709551616) (f : Nat) (hf : evs.length + 1 ≤ f) :
    trackGo (pre ++ (encTrack evs ++ post)) tb f pre.length (pre.length + (encTrack evs).length) 0 info [] =
      (absLines tb info 0 evs, pre.length + (encTrack evs).length, updAll info evs) := by
  obtain ⟨g, rfl⟩ : ∃ g, f = (g + 1) + evs.length := ⟨f - evs.length - 1, by omega⟩
  rw [trackGo_run tb evs hw pre post 0 info [] (g + 1) _ (Nat.le_refl _) (by omega), trackGo]
  have hc : ¬ ((pre.length + (encTrack evs).length < pre.length + (encTrack evs).length ∨ (updAll info evs).eot = false) ∧
      pre.length + (encTrack evs).length < (pre ++ (encTrack evs ++ post)).length) := by
    intro h
    rcases h.1 with h1 | h1
    · omega
    · rw [heot] at h1; cases h1
  rw [if_neg hc]
  simp

theorem updAll_append (info : Info) (a b : List (Nat × Msg)) : updAll info (a ++ b) = updAll (updAll info a) b := by
  induction a generalizing info with
  | nil => rfl
  | cons e r ih => obtain ⟨d, m⟩ := e; simp [updAll, ih]

/-- a track that ends with End-of-Track has been seen to end -/
theorem updAll_eot (info : Info) (r : List (Nat × Msg)) (d : Nat) : (updAll info (r ++ [(d, .metaM 0x2F [])])).eot = true := by
  rw [updAll_append]; simp [updAll, upd]


/-! ## the loop always moves forward (termination on arbitrary bytes) -/

theorem readDelta_ge (b : List Nat) : ∀ (f pos v : Nat), pos ≤ (readDelta b f pos v).2 := by
  intro f
  induction f with
  | zero => intro pos v; simp [readDelta]
  | succ f ih =>
    intro pos v
    rw [readDelta]
    cases b[pos]? with
    | none => simp
    | some cv =>
      simp only []
      split
      · simp
      · exact Nat.le_trans (Nat.le_succ pos) (ih (pos + 1) _)

theorem readDelta_progress (b : List Nat) (f pos v : Nat) (h : pos < b.length) : pos + 1 ≤ (readDelta b (f + 1) pos v).2 := by
  rw [readDelta]
  have : b[pos]? = some b[pos] := List.getElem?_eq_getElem h
  rw [this]
  simp only []
  split
  · simp
  · exact readDelta_ge b f (pos + 1) _

theorem sysexData_ge (b : List Nat) : ∀ (n pos : Nat) (m : String), pos ≤ (sysexData b n pos m).2 := by
  intro n
  induction n with
  | zero => intro pos m; simp [sysexData]
  | succ n ih =>
    intro pos m
    rw [sysexData]
    split
    · exact Nat.le_trans (Nat.le_succ pos) (ih (pos + 1) _)
    · simp

theorem metaStep_ge (b : List Nat) (p : Nat) (info : Info) : p ≤ (metaStep b p info).2.1 := by
  unfold metaStep
  simp only []
  split
  · split
    · simp only []; omega
    · split
      · simp only []; omega
      · split
        · simp only []; omega
        · simp only []; omega
  · split
    · exact Nat.le_trans (Nat.le_trans (Nat.le_succ p) (readDelta_ge b _ (p + 1) 0)) (sysexData_ge b _ _ _)
    · simp

theorem eventStep_ge (b : List Nat) (p : Nat) (info : Info) : p ≤ (eventStep b p info).2.1 := by
  unfold eventStep
  simp only []
  repeat' split
  all_goals first | exact metaStep_ge b p info | (simp only []; omega)

/-- **the dump loop terminates on every byte string**: each pass consumes at least one byte, so the result no longer depends on
    the fuel once it exceeds the number of bytes left -/
theorem trackGo_fuel_stable (b : List Nat) (tb : Nat) : ∀ (n pos E time : Nat) (info : Info) (acc : List String) (f1 f2 : Nat),
    b.length - pos ≤ n → n + 1 ≤ f1 → n + 1 ≤ f2 →
    trackGo b tb f1 pos E time info acc = trackGo b tb f2 pos E time info acc := by
  intro n
  induction n with
  | zero =>
    intro pos E time info acc f1 f2 hn h1 h2
    obtain ⟨g1, rfl⟩ : ∃ g, f1 = g + 1 := ⟨f1 - 1, by omega⟩
    obtain ⟨g2, rfl⟩ : ∃ g, f2 = g + 1 := ⟨f2 - 1, by omega⟩
    have hc : ¬ ((pos < E ∨ info.eot = false) ∧ pos < b.length) := by intro h; omega
    rw [trackGo, trackGo, if_neg hc, if_neg hc]
  | succ n ih =>
    intro pos E time info acc f1 f2 hn h1 h2
    obtain ⟨g1, rfl⟩ : ∃ g, f1 = g + 1 := ⟨f1 - 1, by omega⟩
    obtain ⟨g2, rfl⟩ : ∃ g, f2 = g + 1 := ⟨f2 - 1, by omega⟩
    rw [trackGo, trackGo]
    by_cases hc : (pos < E ∨ info.eot = false) ∧ pos < b.length
    · rw [if_pos hc, if_pos hc]
      simp only []
      have hp := readDelta_progress b b.length pos 0 hc.2
      have he := eventStep_ge b (readDelta b (b.length + 1) pos 0).2 info
      exact ih _ E _ _ _ g1 g2 (by omega) (by omega) (by omega)
    · rw [if_neg hc, if_neg hc]


/-- the position part of a line is `dumpPos` (the formula `C20_position_roundtrip` is about) -/
theorem lineOf_dumpPos (tb : Nat) (info : Info) (time : Nat) (txt : String) (htb : 0 < tb) (hd : 0 < info.deno) :
    lineOf tb info time txt =
      s!"TIME({pad3 (dumpPos tb info.frac info.deno time).1}:{pad3 (dumpPos tb info.frac info.deno time).2.1}:{pad3 (dumpPos tb info.frac info.deno time).2.2}) {txt}" := by
  have hd0 : ¬ (info.deno = 0) := by omega
  have hb : beatBase tb info.deno = (if tb * 4 / info.deno = 0 then tb else tb * 4 / info.deno) := by
    unfold beatBase
    simp only [hd0, if_false]
    split
    · exact Nat.max_eq_left htb
    · rfl
  unfold lineOf dumpPos
  simp only [hb]

end Sakura.Dt
