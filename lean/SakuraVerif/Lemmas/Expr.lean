import SakuraVerif.Model.Expr
namespace Sakura.Ex

/-- `rest` does not start with an operator tighter than level `l` -/
def Follow (l : Nat) (rest : List Tk) : Prop := ∀ o r, rest = .op o :: r → l ≤ o.lvl

/-- the level-`m` loop stops at `rest` -/
def Stops (m : Nat) (rest : List Tk) : Prop := ∀ o r, rest = .op o :: r → m < o.lvl

-- big-step relational semantics of the parser (no fuel)
mutual
inductive PV : List Tk → Expr → List Tk → Prop
  | atom (a r) : PV (.atom a :: r) (.atom a) r
  | neg {r e r'} : PV r e r' → PV (.neg :: r) (.neg e) r'
  | paren {r e r'} : PL top r e (.rp :: r') → PV (.lp :: r) e r'
inductive PL : Nat → List Tk → Expr → List Tk → Prop
  | mk {m ts v r e r'} : PV ts v r → PLoop m v r e r' → PL m ts e r'
inductive PLoop : Nat → Expr → List Tk → Expr → List Tk → Prop
  | stop {m left ts} : Stops m ts → PLoop m left ts left ts
  | step {m left o r right r' e r''} : o.lvl ≤ m → PL (o.lvl - 1) r right r' →
      PLoop m (.bin o left right) r' e r'' → PLoop m left (.op o :: r) e r''
end

theorem stops_of_follow {l k : Nat} {rest} (h : Follow l rest) (hk : k < l) : Stops k rest :=
  fun o r e => Nat.lt_of_lt_of_le hk (h o r e)

/-- unparenthesised body of a binary node -/
theorem body_lemma (o : Op) (a b : Expr) (ho1 : 1 ≤ o.lvl)
    (iha : ∀ l m rest e0 r0, l ≤ m → Follow l rest → PLoop m a rest e0 r0 → PL m (print l a ++ rest) e0 r0)
    (ihb : ∀ l m rest e0 r0, l ≤ m → Follow l rest → PLoop m b rest e0 r0 → PL m (print l b ++ rest) e0 r0)
    (l m : Nat) (rest : List Tk) (e0 : Expr) (r0 : List Tk)
    (hol : o.lvl ≤ l) (hlm : l ≤ m) (hf : Follow l rest) (hk : PLoop m (.bin o a b) rest e0 r0) :
    PL m ((print o.lvl a ++ (.op o :: print (o.lvl - 1) b)) ++ rest) e0 r0 := by
  rw [List.append_assoc, List.cons_append]
  apply iha o.lvl m _ e0 r0 (Nat.le_trans hol hlm)
  · intro o' r' h; cases h; exact Nat.le_refl _
  · refine PLoop.step (Nat.le_trans hol hlm) (right := b) (r' := rest) ?_ hk
    apply ihb (o.lvl - 1) (o.lvl - 1) rest b rest (Nat.le_refl _)
    · intro o' r' h; exact Nat.le_trans (by omega) (hf o' r' h)
    · exact PLoop.stop (stops_of_follow hf (by omega))

theorem print_neg_indep (l : Nat) (e : Expr) : print l (.neg e) = print 0 (.neg e) := by
  cases e <;> simp [print]

/-- main invariant `P` (an expression printed at level `l` followed by `rest` is parsed back and the
    loop continues on `rest`) together with `Q` (a printed negation is read back as a value) -/
theorem print_parse_both (e : Expr) (hw : wfE e) :
    (∀ l m rest e0 r0, l ≤ m → Follow l rest → PLoop m e rest e0 r0 → PL m (print l e ++ rest) e0 r0) ∧
    (∀ rest, PV (print 0 (.neg e) ++ rest) (.neg e) rest) := by
  induction e with
  | atom a =>
    refine ⟨?_, ?_⟩
    · intro l m rest e0 r0 _ _ hk
      exact PL.mk (PV.atom a rest) hk
    · intro rest
      exact PV.neg (PV.atom a rest)
  | neg e1 ih =>
    have ih' := ih hw
    refine ⟨?_, ?_⟩
    · intro l m rest e0 r0 _ _ hk
      rw [print_neg_indep]
      exact PL.mk (ih'.2 rest) hk
    · intro rest
      have : print 0 (.neg (.neg e1)) = .neg :: print 0 (.neg e1) := by simp [print]
      rw [this]
      exact PV.neg (ih'.2 rest)
  | bin o a b iha ihb =>
    obtain ⟨ho1, hot, hwa, hwb⟩ := hw
    have pa := (iha hwa).1
    have pb := (ihb hwb).1
    have paren : ∀ rest, PV (.lp :: (print o.lvl a ++ (.op o :: print (o.lvl - 1) b)) ++ [.rp] ++ rest) (.bin o a b) rest := by
      intro rest
      refine PV.paren (e := .bin o a b) (r' := rest) ?_
      have := body_lemma o a b ho1 pa pb top top (.rp :: rest) (.bin o a b) (.rp :: rest)
        hot (Nat.le_refl _) (by intro o' r' h; cases h) (PLoop.stop (by intro o' r' h; cases h))
      simpa [List.append_assoc] using this
    refine ⟨?_, ?_⟩
    · intro l m rest e0 r0 hlm hf hk
      by_cases hol : o.lvl ≤ l
      · simp only [print, hol, if_true]
        exact body_lemma o a b ho1 pa pb l m rest e0 r0 hol hlm hf hk
      · simp only [print, hol, if_false]
        exact PL.mk (paren rest) hk
    · intro rest
      have : print 0 (.neg (.bin o a b)) = .neg :: (.lp :: (print o.lvl a ++ (.op o :: print (o.lvl - 1) b)) ++ [.rp]) := by
        simp [print]
      rw [this]
      exact PV.neg (by simpa using paren rest)

/-- token level, relational: printing with minimal parentheses and parsing gives the tree back -/
theorem parse_print_rel (e : Expr) (hw : wfE e) : PL top (print top e) e [] := by
  have := (print_parse_both e hw).1 top top [] e [] (Nat.le_refl _) (by intro o r h; cases h)
    (PLoop.stop (by intro o r h; cases h))
  simpa using this

mutual
theorem pv_exec : ∀ {ts e r}, PV ts e r → ∃ F0, ∀ F, F0 ≤ F → parseValue F ts = some (e, r)
  | _, _, _, .atom a r => ⟨1, fun F hF => by
      cases F with
      | zero => omega
      | succ f => simp [parseValue]⟩
  | _, _, _, .neg (r := r) (e := e) (r' := r') h => by
      obtain ⟨F1, h1⟩ := pv_exec h
      refine ⟨F1 + 1, fun F hF => ?_⟩
      cases F with
      | zero => omega
      | succ f => simp [parseValue, h1 f (by omega)]
  | _, _, _, .paren (r := r) (e := e) (r' := r') h => by
      obtain ⟨F1, h1⟩ := pl_exec h
      refine ⟨F1 + 1, fun F hF => ?_⟩
      cases F with
      | zero => omega
      | succ f => simp [parseValue, h1 f (by omega)]
theorem pl_exec : ∀ {m ts e r}, PL m ts e r → ∃ F0, ∀ F, F0 ≤ F → parseLevel F m ts = some (e, r)
  | _, _, _, _, .mk hv hl => by
      obtain ⟨F1, h1⟩ := pv_exec hv
      obtain ⟨F2, h2⟩ := ploop_exec hl
      refine ⟨F1 + F2 + 1, fun F hF => ?_⟩
      cases F with
      | zero => omega
      | succ f => simp [parseLevel, h1 f (by omega), h2 f (by omega)]
theorem ploop_exec : ∀ {m left ts e r}, PLoop m left ts e r → ∃ F0, ∀ F, F0 ≤ F → parseLoop F m left ts = some (e, r)
  | m, left, ts, _, _, .stop hs => ⟨1, fun F hF => by
      cases F with
      | zero => omega
      | succ f =>
        cases ts with
        | nil => simp [parseLoop]
        | cons t r =>
          cases t with
          | op o =>
            have : ¬ (o.lvl ≤ m) := by have := hs o r rfl; omega
            simp [parseLoop, this]
          | atom n => simp [parseLoop]
          | lp => simp [parseLoop]
          | rp => simp [parseLoop]
          | neg => simp [parseLoop]⟩
  | _, _, _, _, _, .step hle hr hk => by
      obtain ⟨F1, h1⟩ := pl_exec hr
      obtain ⟨F2, h2⟩ := ploop_exec hk
      refine ⟨F1 + F2 + 1, fun F hF => ?_⟩
      cases F with
      | zero => omega
      | succ f => simp [parseLoop, hle, h1 f (by omega), h2 f (by omega)]
end

/-- executable parser: with enough fuel it returns exactly the tree and consumes all tokens -/
theorem parse_print (e : Expr) (hw : wfE e) :
    ∃ F0, ∀ F, F0 ≤ F → parseLevel F top (print top e) = some (e, []) :=
  pl_exec (parse_print_rel e hw)

end Sakura.Ex
