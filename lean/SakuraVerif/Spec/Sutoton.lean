import SakuraVerif.Model.Sutoton
/-! Independent formulation of the sutoton rule for C17: at every position take the **longest**
    vocabulary word that matches (explicit maximum, no reliance on list order); otherwise copy
    the width-mapped character.  Definitions extend the vocabulary from their position on;
    string/comment spans are verbatim. -/
namespace Sakura.Spec.Sut
open Sakura.Sut

def longestMatch (items : List Item) (rest : List Nat) : Option Item :=
  items.foldl (fun best it =>
    if it.name.isPrefixOf rest && !it.name.isEmpty &&
       (match best with | some b => b.name.length < it.name.length | none => true)
    then some it else best) none

/-- greedy longest-match transliteration of plain text (no `~`, strings or comments inside) -/
def greedy : Nat → List Item → List Nat → List Nat
  | 0, _, _ => []
  | _, _, [] => []
  | f+1, items, c :: cs =>
    match longestMatch items (c :: cs) with
    | some it => it.value ++ greedy f items ((c :: cs).drop it.name.length)
    | none => zen2han c :: greedy f items cs

/-- vocabulary as a plain association: later definitions of a name replace earlier ones -/
def define (items : List Item) (name value : List Nat) : List Item :=
  if name.isEmpty then items else ⟨name, value⟩ :: items.filter (fun it => it.name != name)

inductive Seg where
  | text (s : List Nat)
  | defn (name value : List Nat)
  | verbatim (s : List Nat)

def segsOut : List Item → List Seg → List Nat
  | _, [] => []
  | items, .text s :: r => greedy (s.length + 1) items s ++ segsOut items r
  | items, .defn n v :: r => n.filter (· = 10) ++ v.filter (· = 10) ++ segsOut (define items n v) r      -- a definition keeps its line breaks
  | items, .verbatim s :: r => s ++ segsOut items r

def expected (rows : List (List Nat × List Nat)) (segs : List Seg) : List Nat :=
  trim (segsOut (rows.foldl (fun its r => define its r.1 r.2) []) segs)

end Sakura.Spec.Sut
