import SakuraVerif.Spec.Smf
import SakuraVerif.Model.Dump
/-! Specification of the dump for C20: from the *independently decoded* file (Spec.parseSmf /
    Spec.decodeTrack) to the lines the dump must show — one per event, in file order, with the
    position under the time signature in force and the event's kind and values. -/
namespace Sakura.Spec
open Sakura

def pad3 (n : Nat) : String :=
  let s := toString n
  if s.length ≥ 3 then s else String.ofList (List.replicate (3 - s.length) '0') ++ s

def hexd (n : Nat) : Char := if n < 10 then Char.ofNat (48 + n) else Char.ofNat (87 + n)
def hex2 (n : Nat) : String := String.ofList [hexd (n / 16 % 16), hexd (n % 16)]
def hexD (n : Nat) : Char := if n < 10 then Char.ofNat (48 + n) else Char.ofNat (55 + n)
def hex2U (n : Nat) : String := String.ofList [hexD (n / 16 % 16), hexD (n % 16)]

def metaName (ty : Nat) : Option String :=
  match ty with
  | 1 => some "TEXT" | 2 => some "COPYRIGHT" | 3 => some "TRACK_NAME" | 4 => some "INSTRUMENT_NAME"
  | 5 => some "LYRIC" | 6 => some "MARKER" | 7 => some "CUE_POINT" | _ => none

def isCont (c : Nat) : Bool := 0x80 ≤ c && c ≤ 0xBF

/-- strict UTF-8 decoding (no overlong forms, no surrogates, nothing above U+10FFFF), as `String::from_utf8` decides it -/
def utf8Strict : Nat → List Nat → Option (List Nat)
  | 0, _ => none
  | _, [] => some []
  | f+1, b :: r =>
    if b < 0x80 then (utf8Strict f r).map (b :: ·)
    else if 0xC2 ≤ b ∧ b ≤ 0xDF then
      match r with
      | c :: r' => if isCont c then (utf8Strict f r').map (((b % 32) * 64 + c % 64) :: ·) else none
      | _ => none
    else if 0xE0 ≤ b ∧ b ≤ 0xEF then
      match r with
      | c :: d :: r' =>
        let lo := if b = 0xE0 then 0xA0 else 0x80
        let hi := if b = 0xED then 0x9F else 0xBF
        if lo ≤ c ∧ c ≤ hi ∧ isCont d then (utf8Strict f r').map (((b % 16) * 4096 + (c % 64) * 64 + d % 64) :: ·) else none
      | _ => none
    else if 0xF0 ≤ b ∧ b ≤ 0xF4 then
      match r with
      | c :: d :: e :: r' =>
        let lo := if b = 0xF0 then 0x90 else 0x80
        let hi := if b = 0xF4 then 0x8F else 0xBF
        if lo ≤ c ∧ c ≤ hi ∧ isCont d ∧ isCont e then
          (utf8Strict f r').map (((b % 8) * 262144 + (c % 64) * 4096 + (d % 64) * 64 + e % 64) :: ·) else none
      | _ => none
    else none

/-- the payload of a text-like meta event as the dump shows it: the UTF-8 text when the bytes are valid UTF-8, otherwise every byte as
    the character with that code (so that different payloads stay different on the page) -/
def payloadText (d : List Nat) : String :=
  match utf8Strict (d.length + 1) d with
  | some cs => String.ofList (cs.map Char.ofNat)
  | none => String.ofList (d.map Char.ofNat)

/-- the essential part of a dump line for a message (trailing explanatory comments excluded);
    `none` = no requirement on the text beyond the position (payload rendering of unusual metas) -/
def descOf (status : Nat) : Msg → Option String
  | .noteOff _ k v => some s!"NoteOff(${hex2 k},${hex2 v})"
  | .noteOn _ k v => some s!"NoteOn(${hex2 k},${hex2 v})"
  | .cc _ c v => some s!"CC(${hex2 c},${hex2 v})"
  | .prog _ p => some s!"Voice({p + 1})"
  | .bend _ l m => some s!"PitchBend({((m * 128 + l : Nat) : Int) - 8192})"
  | .polyAt _ k v => some s!"DirectSMF(${hex2 status},${hex2 k},${hex2 v})"
  | .chanAt _ v => some s!"DirectSMF(${hex2 status},${hex2 v})"
  | .metaM 0x2F _ => some "/* __END_OF_TRACK__ */"
  | .metaM 0x51 [a, b, c] => if a * 65536 + b * 256 + c = 0 then none else some s!"Tempo={60000000 / (a * 65536 + b * 256 + c)}"
  | .metaM 0x58 (nn :: dd :: _) => if dd < 31 then some s!"TimeSig={nn}/{2 ^ dd}" else none
  | .metaM ty d =>
      if ty = 0x51 ∨ ty = 0x58 ∨ ty = 0x2F ∨ d.length ≥ 128 ∨ d.any (fun b => b = 10 ∨ b = 13) then none
      else match metaName ty with
      | some nm => some (nm ++ "{" ++ payloadText d ++ "};")
      | none => some ("// Meta Type=$" ++ hex2 ty ++ s!" Length={d.length} Text=" ++ "{" ++ payloadText d ++ "};")
  | .sysex d =>
      -- F0, the length (upper-case hexadecimal, at least two digits), then every data byte — an F7 among them is data — separated by commas
      some ("SysEx$=F0,/*len:" ++ (if d.length < 256 then hex2U d.length else String.ofList ((Nat.toDigits 16 d.length).map Char.toUpper)) ++ "*/" ++
        String.intercalate "," (d.map hex2U) ++ ";")

structure DumpSt where
  frac : Nat := 4
  deno : Nat := 4

/-- one expected line: position (under the signature in force *before* the event) and description -/
def expectLine (tb : Nat) (st : DumpSt) (time : Nat) (status : Nat) (m : Msg) : String × Option String :=
  let (ms, bt, tk) := dumpPos tb st.frac st.deno time
  (s!"TIME({pad3 ms}:{pad3 bt}:{pad3 tk})", descOf status m)

def updSt (st : DumpSt) : Msg → DumpSt
  | .metaM 0x58 (nn :: dd :: _) => { frac := nn, deno := 2 ^ dd }
  | _ => st

/-- status byte of a decoded message (needed only for the DirectSMF renderings) -/
def statusOf : Msg → Nat
  | .noteOff c _ _ => 0x80 + c | .noteOn c _ _ => 0x90 + c | .polyAt c _ _ => 0xA0 + c | .cc c _ _ => 0xB0 + c
  | .prog c _ => 0xC0 + c | .chanAt c _ => 0xD0 + c | .bend c _ _ => 0xE0 + c | .metaM _ _ => 0xFF | .sysex _ => 0xF0

def trackLines (tb : Nat) : DumpSt → Nat → List (Nat × Msg) → List (String × Option String) × DumpSt
  | st, _, [] => ([], st)
  | st, t, (d, m) :: r =>
    let t' := t + d
    let l := expectLine tb st t' (statusOf m) m
    let (ls, st') := trackLines tb (updSt st m) t' r
    (l :: ls, st')

/-- all expected lines of a file: header lines are `(text, none-meaning-exact)`; we return
    per-track expected event lines -/
def fileLines (tb : Nat) : DumpSt → List (List (Nat × Msg)) → List (List (String × Option String))
  | _, [] => []
  | st, tr :: rest =>
    let (ls, st') := trackLines tb st 0 tr
    ls :: fileLines tb st' rest

end Sakura.Spec
