import SakuraVerif.Spec.Smf
import SakuraVerif.Model.Dump
/-! Specification of the dump for C20: from the *independently decoded* file (Spec.parseSmf /
    Spec.decodeTrack) to the lines the dump must show — one per event, in file order, with the
    position under the time signature in force and the event's kind and values. -/
namespace Sakura.Spec
open Sakura

def pad3 (n : Nat) : String :=
  let s := toString n
  if s.length ≥ 3 then s else String.ofList (List.replicate (3 - s.length) '0') ++ s

def hexd (n : Nat) : Char := if n < 10 then Char.ofNat (48 + n) else Char.ofNat (87 + n)
def hex2 (n : Nat) : String := String.ofList [hexd (n / 16 % 16), hexd (n % 16)]
def hexD (n : Nat) : Char := if n < 10 then Char.ofNat (48 + n) else Char.ofNat (55 + n)
def hex2U (n : Nat) : String := String.ofList [hexD (n / 16 % 16), hexD (n % 16)]

def metaName (ty : Nat) : Option String :=
  match ty with
  | 1 => some "TEXT" | 2 => some "COPYRIGHT" | 3 => some "TRACK_NAME" | 4 => some "INSTRUMENT_NAME"
  | 5 => some "LYRIC" | 6 => some "MARKER" | 7 => some "CUE_POINT" | _ => none

/-- the essential part of a dump line for a message (trailing explanatory comments excluded);
    `none` = no requirement on the text beyond the position (payload rendering of unusual metas) -/
def descOf (status : Nat) : Msg → Option String
  | .noteOff _ k v => some s!"NoteOff(${hex2 k},${hex2 v})"
  | .noteOn _ k v => some s!"NoteOn(${hex2 k},${hex2 v})"
  | .cc _ c v => some s!"CC(${hex2 c},${hex2 v})"
  | .prog _ p => some s!"Voice({p + 1})"
  | .bend _ l m => some s!"PitchBend({((m * 128 + l : Nat) : Int) - 8192})"
  | .polyAt _ k v => some s!"DirectSMF(${hex2 status},${hex2 k},${hex2 v})"
  | .chanAt _ v => some s!"DirectSMF(${hex2 status},${hex2 v})"
  | .metaM 0x2F _ => some "/* __END_OF_TRACK__ */"
  | .metaM 0x51 [a, b, c] => if a * 65536 + b * 256 + c = 0 then none else some s!"Tempo={60000000 / (a * 65536 + b * 256 + c)}"
  | .metaM 0x58 (nn :: dd :: _) => some s!"TimeSig={nn}/{2 ^ dd}"
  | .metaM ty d =>
      match metaName ty with
      | some nm => if d.all (· < 128) then some (nm ++ "{" ++ String.ofList (d.map Char.ofNat) ++ "};") else none
      | none => none
  | .sysex d =>
      -- F0, then the length byte(s) shown as /*len:..*/ for the first one, then the payload
      if d.length < 128 then
        some ("SysEx$=F0,/*len:" ++ hex2U d.length ++ "*/" ++
          String.join (d.map (fun b => if b = 0xF7 then hex2U b else hex2U b ++ ",")) ++ ";")
      else none

structure DumpSt where
  frac : Nat := 4
  deno : Nat := 4

/-- one expected line: position (under the signature in force *before* the event) and description -/
def expectLine (tb : Nat) (st : DumpSt) (time : Nat) (status : Nat) (m : Msg) : String × Option String :=
  let (ms, bt, tk) := dumpPos tb st.frac st.deno time
  (s!"TIME({pad3 ms}:{pad3 bt}:{pad3 tk})", descOf status m)

def updSt (st : DumpSt) : Msg → DumpSt
  | .metaM 0x58 (nn :: dd :: _) => { frac := nn, deno := 2 ^ dd }
  | _ => st

/-- status byte of a decoded message (needed only for the DirectSMF renderings) -/
def statusOf : Msg → Nat
  | .noteOff c _ _ => 0x80 + c | .noteOn c _ _ => 0x90 + c | .polyAt c _ _ => 0xA0 + c | .cc c _ _ => 0xB0 + c
  | .prog c _ => 0xC0 + c | .chanAt c _ => 0xD0 + c | .bend c _ _ => 0xE0 + c | .metaM _ _ => 0xFF | .sysex _ => 0xF0

def trackLines (tb : Nat) : DumpSt → Nat → List (Nat × Msg) → List (String × Option String) × DumpSt
  | st, _, [] => ([], st)
  | st, t, (d, m) :: r =>
    let t' := t + d
    let l := expectLine tb st t' (statusOf m) m
    let (ls, st') := trackLines tb (updSt st m) t' r
    (l :: ls, st')

/-- all expected lines of a file: header lines are `(text, none-meaning-exact)`; we return
    per-track expected event lines -/
def fileLines (tb : Nat) : DumpSt → List (List (Nat × Msg)) → List (List (String × Option String))
  | _, [] => []
  | st, tr :: rest =>
    let (ls, st') := trackLines tb st 0 tr
    ls :: fileLines tb st' rest

end Sakura.Spec
