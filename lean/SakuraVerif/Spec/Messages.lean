import SakuraVerif.Spec.Smf
/-! Specification for C15: the MIDI message each documented command must emit.  The tables below
    are written from the MIDI 1.0 / GM / GS / XG documents (controller numbers, RPN/NRPN addresses,
    meta types, reset strings), independently of the Rust tables. -/
namespace Sakura.Spec

def cp (s : String) : List Nat := s.toList.map Char.toNat

/-- named controller commands → controller number (MIDI 1.0 controller assignments) -/
def stdCc : List (String × Nat) := [
  ("M", 1), ("Modulation", 1), ("PT", 5), ("PortamentoTime", 5), ("V", 7), ("MainVolume", 7),
  ("P", 10), ("Panpot", 10), ("EP", 11), ("Expression", 11), ("PS", 65), ("PortamentoSwitch", 65),
  ("REV", 91), ("Reverb", 91), ("CHO", 93), ("Chorus", 93), ("VAR", 94), ("Variation", 94)]

/-- RPN commands → (MSB, LSB) of the registered parameter -/
def stdRpn : List (String × Nat × Nat) := [
  ("PitchBendSensitivity", 0, 0), ("BEND_RANGE", 0, 0), ("BendRange", 0, 0), ("BR", 0, 0),
  ("FineTune", 0, 1), ("CoarseTune", 0, 2)]

/-- NRPN commands (GS/XG sound controllers) → (MSB, LSB) -/
def stdNrpn : List (String × Nat × Nat) := [
  ("VibratoRate", 1, 8), ("VibratoDepth", 1, 9), ("VibratoDelay", 1, 10),
  ("FilterCutoff", 1, 0x20), ("FilterResonance", 1, 0x21),
  ("EGAttack", 1, 0x63), ("EGDecay", 1, 0x64), ("EGRelease", 1, 0x66)]

/-- text commands → SMF meta type -/
def stdText : List (String × Nat) := [
  ("MetaText", 1), ("Text", 1), ("TEXT", 1), ("Copyright", 2), ("COPYRIGHT", 2),
  ("TrackName", 3), ("TRACK_NAME", 3), ("InstrumentName", 4), ("Lyric", 5), ("LYRIC", 5),
  ("MAKER", 6), ("Maker", 6), ("CuePoint", 7)]

def stdTempo : List String := ["Tempo", "TEMPO", "T", "BPM"]
def stdTimeSig : List String := ["TimeSignature", "System.TimeSignature", "TimeSig", "TIMESIG"]
def stdVoice : List String := ["Voice", "VOICE"]
def stdBendBig : List String := ["PitchBend", "PB"]
def stdCcDirect : List String := ["CONTROL_CHANGE", "ControlChange", "CC"]

/-- GM System On, GS Reset, XG System On (device number `dev` for the Roland/Yamaha strings) -/
def resetGM : List Nat := [0x7E, 0x7F, 0x09, 0x01, 0xF7]
def resetGS (dev : Nat) : List Nat := [0x41, dev, 0x42, 0x12, 0x40, 0x00, 0x7F, 0x00, 0x41, 0xF7]
def resetXG (dev : Nat) : List Nat := [0x43, dev, 0x4C, 0x00, 0x00, 0x7E, 0x00, 0xF7]

def clampI (lo v hi : Int) : Int := if v < lo then lo else if v > hi then hi else v
def c7 (v : Int) : Nat := (clampI 0 v 127).toNat

/-- control change -/
def ccMsg (ch : Nat) (no v : Int) : Msg := .cc ch (c7 no) (c7 v)

/-- `@n[,msb,lsb]`: program n-1 (n clamped to 1..128), preceded by bank select 0/32 when banks are given -/
def voiceMsgs (ch : Nat) (args : List Int) : List Msg :=
  match args with
  | [n] => [.prog ch (clampI 1 n 128 - 1).toNat]
  | [n, msb] => [ccMsg ch 0 msb, ccMsg ch 32 0, .prog ch (clampI 1 n 128 - 1).toNat]
  | n :: msb :: lsb :: _ => [ccMsg ch 0 msb, ccMsg ch 32 lsb, .prog ch (clampI 1 n 128 - 1).toNat]
  | [] => [.prog ch 0]

/-- `Tempo(bpm)`: FF 51 03 + 24-bit big-endian 60,000,000 / bpm (bpm clamped to 10..300) -/
def tempoMsg (bpm : Int) : Msg :=
  let mpq := (60000000 / clampI 10 bpm 300).toNat
  .metaM 0x51 [mpq / 65536 % 256, mpq / 256 % 256, mpq % 256]

def log2d (d : Int) : Nat := if d = 2 then 1 else if d = 4 then 2 else if d = 8 then 3 else if d = 16 then 4 else 2

/-- `TimeSignature(nn,dd)`: FF 58 04 nn log2(dd) 24 8 (dd one of 2,4,8,16; nn 2..64) -/
def timeSigMsg (nn dd : Int) : Msg := .metaM 0x58 [(clampI 2 nn 64).toNat, log2d dd, 24, 8]

/-- pitch bend: 14-bit value, LSB first -/
def bendMsg (ch : Nat) (v14 : Int) : Msg := .bend ch (v14 % 128).toNat (v14 / 128 % 128).toNat
/-- `PitchBend(v)`: -8192..8191 centred at 8192 -/
def bendBigMsg (ch : Nat) (v : Int) : Msg := bendMsg ch (v + 8192)
/-- `p(n)`: 0..127 in steps of 128 (64 = centre) -/
def bendSmallMsg (ch : Nat) (n : Int) : Msg := bendMsg ch (n * 128)

/-- RPN: select 101/100 then data entry 6; NRPN: select 99/98 then data entry 6 -/
def rpnMsgs (ch : Nat) (msb lsb v : Int) : List Msg := [ccMsg ch 101 msb, ccMsg ch 100 lsb, ccMsg ch 6 v]
def nrpnMsgs (ch : Nat) (msb lsb v : Int) : List Msg := [ccMsg ch 99 msb, ccMsg ch 98 lsb, ccMsg ch 6 v]

def utf8Len1 (c : Nat) : Nat := if c < 0x80 then 1 else if c < 0x800 then 2 else if c < 0x10000 then 3 else 4

/-- longest prefix (whole characters) whose UTF-8 length is at most 127 -/
def textCut : Nat → List Nat → List Nat
  | _, [] => []
  | used, c :: cs => if used + utf8Len1 c < 128 then c :: textCut (used + utf8Len1 c) cs else []

/-- Roland checksum of address+data bytes -/
def rolandChecksum (bytes : List Int) : Int := (128 - (bytes.foldl (· + ·) 0) % 128) % 128

/-- GS "data set 1" message body: 41 dev 42 12 addr… data… checksum F7 -/
def gsDataSet (dev : Nat) (addrData : List Nat) : List Nat :=
  [0x41, dev, 0x42, 0x12] ++ addrData ++ [(rolandChecksum (addrData.map Int.ofNat)).toNat, 0xF7]

/-- universal real-time master volume / balance -/
def masterVolume (v : Int) : List Nat := [0x7F, 0x7F, 0x04, 0x01, 0x00, (v % 128).toNat, 0xF7]
def masterBalance (v : Int) : List Nat := [0x7F, 0x7F, 0x04, 0x02, ((v + 8192) % 128).toNat, ((v + 8192) / 128 % 128).toNat, 0xF7]

end Sakura.Spec
