import SakuraVerif.Lemmas.Length
/-! # Spec.Core — denotational semantics of the core note language (the reading of C03)

An AST of the core note language and a one-page semantics `sem` producing sounded notes
`(track, channel, key, start, duration, velocity)`, with the documented defaults and clamps written
as numerals: octave 5, velocity 100, gate 90 %, quarter-note length, time base 96, channel =
track number (1-based, clamped), o 0..10, v 0..127, q 0..100, `(`/`)` step 8, pointer += full
length regardless of gate. -/
namespace Sakura.Core
open Sakura.Len

def tdiv (a b : Int) : Int := if b = 0 then 0 else Int.tdiv a b
def clamp (lo v hi : Int) : Int := if v < lo then lo else if v > hi then hi else v

/-- a length expression by its syntax: head part and the parts introduced by `^`/`+` -/
structure LenExpr where
  head : PartSyn
  parts : List (Nat × PartSyn)

/-- documented tick value of a length expression (closed form proved equal to `calc_length` in C04) -/
def lenVal (tb dflt : Int) (L : LenExpr) : Int := headVal tb dflt L.head + sumVals tb dflt L.parts

def lenOpt (tb dflt : Int) : Option LenExpr → Int
  | none => dflt
  | some L => lenVal tb dflt L

inductive Cmd where
  | note (semi : Int) (acc : Int) (nat : Bool) (len : Option LenExpr) (q v t o : Option Int)
  | noteN (no : Int) (len : Option LenExpr) (q v t : Option Int)
  | rest (len : Option LenExpr) (dir : Int)
  | setL (len : Option LenExpr)
  | setO (n : Int) | octRel (d : Int) | setV (n : Int) | velRel (d : Int) | setQ (n : Int) | setT (n : Int)
  | loop (n : Nat) (body : List Cmd) (hasBrk : Bool) (brk : List Cmd)
  | sub (body : List Cmd)
  | div (body : List Cmd) (len : Option LenExpr)
  | chord (body : List Cmd) (len : Option LenExpr) (q v : Option Int)
  | track (n : Nat) | channel (n : Int) | voice (n : Int) | keyShift (k : Int) | trackKey (k : Int)
  | keyFlag (flag : Int) (semis : List Nat)
  | trackSync
  | play (parts : List (List Cmd))

structure NoteEv where
  time : Int
  ch : Int
  key : Int
  dur : Int
  vel : Int
deriving Repr, DecidableEq

structure Trk where
  tp : Int := 0
  ch : Int
  l : Int
  o : Int := 5
  v : Int := 100
  q : Int := 90
  t : Int := 0
  key : Int := 0
  ev : List NoteEv := []
deriving Repr

structure St where
  tb : Int := 96
  tr : List Trk
  cur : Nat := 0
  keyflag : List Int := List.replicate 12 0
  kshift : Int := 0
  vAdd : Int := 8
  harm : Option (Int × List NoteEv) := none
deriving Repr

/-- a new track: default channel = its number − 1 (track 0 and 1 both on MIDI channel 1), clamped -/
def newTrk (tb : Int) (index : Nat) : Trk := { ch := clamp 0 ((index : Int) - 1) 15, l := tb }
def St.init : St := { tr := [newTrk 96 0] }
def St.t (s : St) : Trk := s.tr.getD s.cur (newTrk s.tb s.cur)
def St.setT (s : St) (t : Trk) : St := { s with tr := s.tr.set s.cur t }

/-- gate: duration = len × q / 100 (truncated) -/
def gate (ln q : Int) : Int := tdiv (ln * q) 100

/-- sound one note on the current track; the pointer advances by the full length -/
def noteOn (s : St) (key ln q v tm : Int) : NoteEv × St :=
  let t := s.t
  (⟨t.tp + tm, t.ch, key, gate ln q, clamp 0 v 127⟩, s.setT { t with tp := t.tp + ln })

/-- selecting track `n` materialises every track up to it, each with its own default channel -/
def growTracks (tb : Int) (n : Nat) : Nat → List Trk → List Trk
  | 0, ts => ts
  | f+1, ts => if ts.length ≤ n then growTracks tb n f (ts ++ [newTrk tb ts.length]) else ts

/-- `[n a : b]` = (a b)^(n-1) a -/
def iter {σ} (fa fb : σ → σ) : Nat → σ → σ
  | 0, s => s
  | 1, s => fa s
  | k+2, s => iter fa fb (k+1) (fb (fa s))

/-- what the end of a chord does to each collected note: start at the chord's tick, the chord's
    length × gate (unless the gate is 0), the chord's velocity when given -/
def chordFix (ht ln qq : Int) (v : Option Int) (e : NoteEv) : NoteEv :=
  let e := { e with time := ht }
  let e := if qq ≠ 0 then { e with dur := tdiv (ln * qq) 100 } else e
  match v with | some vv => (if vv < 0 then e else { e with vel := vv }) | none => e

/-- the `^` parts of a length (a tuplet counts each `^`; parts joined by `+` are not counted separately) -/
def hats : Option LenExpr → Int
  | none => 0
  | some L => (L.parts.filter (fun p => p.1 == 94)).length

mutual
/-- the counted elements of a tuplet body: notes, rests, nested tuplets and each `^` part of
    their lengths; a loop counts as its repetitions; the members of a chord count one by one (the lexer counts tokens) -/
def countElem : Cmd → Int
  | .note _ _ _ len _ _ _ _ => 1 + hats len
  | .noteN _ len _ _ _ => 1 + hats len
  | .rest len _ => 1 + hats len
  | .div _ len => 1 + hats len
  | .loop n a _ b => if n = 0 then 0 else (n : Int) * countElems a + ((n : Int) - 1) * countElems b
  | .chord b _ _ _ => countElems b
  | _ => 0
def countElems : List Cmd → Int
  | [] => 0
  | c :: cs => countElem c + countElems cs
end

mutual
def sem : Cmd → St → St
  | .note semi acc nat len q v tm o, s =>
    let t := s.t
    let qq := match q with | none => t.q | some 0 => t.q | some x => x
    let vv := match v with | none => t.v | some x => if x < 0 then t.v else x
    let tt := tm.getD t.t
    let oo := match o with | none => t.o | some x => if x < 0 then t.o else x
    let key := oo * 12 + semi + acc + (if nat then 0 else s.keyflag.getD semi.toNat 0) + s.kshift + t.key
    let ln := lenOpt s.tb t.l len
    let r := noteOn s key ln qq vv tt
    match s.harm with
    | some (ht, evs) => { (r.2.setT { r.2.t with tp := ht }) with harm := some (ht, evs ++ [r.1]) }
    | none => r.2.setT { r.2.t with ev := r.2.t.ev ++ [r.1] }
  | .noteN no len q v tm, s =>
    let t := s.t
    let qq := match q with | none => t.q | some 0 => t.q | some x => x
    let vv := match v with | none => t.v | some x => if x < 0 then t.v else x
    let tt := tm.getD t.t
    let ln := lenOpt s.tb t.l len
    let r := noteOn s (no + t.key + s.kshift) ln qq vv tt
    r.2.setT { r.2.t with ev := r.2.t.ev ++ [r.1] }
  | .rest len dir, s => let t := s.t; s.setT { t with tp := t.tp + lenOpt s.tb t.l len * dir }
  | .setL len, s => let t := s.t; s.setT { t with l := lenOpt s.tb s.tb len }
  | .setO n, s => let t := s.t; s.setT { t with o := clamp 0 n 10 }
  | .octRel d, s => let t := s.t; s.setT { t with o := clamp 0 (t.o + d) 10 }
  | .setV n, s => let t := s.t; s.setT { t with v := clamp 0 n 127 }
  | .velRel d, s => let t := s.t; s.setT { t with v := clamp 0 (t.v + s.vAdd * d) 127 }
  | .setQ n, s => let t := s.t; s.setT { t with q := clamp 0 n 100 }
  | .setT n, s => let t := s.t; s.setT { t with t := n }
  | .loop n a _ b, s => iter (semL a) (semL b) n s
  | .sub body, s => let tp := s.t.tp; let s' := semL body s; s'.setT { s'.t with tp := tp }
  | .div body len, s =>
    let t := s.t
    let dl := lenOpt s.tb t.l len
    let cnt := countElems body
    let s1 := s.setT { t with l := if cnt > 0 then tdiv dl cnt else 0 }
    let s2 := semL body s1
    s2.setT { s2.t with tp := t.tp + dl, l := t.l }
  | .chord body len q v, s =>
    let t := s.t
    let s1 := semL body { s with harm := some (t.tp, []) }
    match s1.harm with
    | none => s1
    | some (ht, evs) =>
      let t1 := s1.t
      let qq := match q with | none => t1.q | some x => if x < 0 then t1.q else x
      let ln := lenOpt s1.tb t1.l len
      { (s1.setT { t1 with ev := t1.ev ++ (evs.reverse.map (chordFix ht ln qq v)), tp := ht + ln }) with harm := none }
  | .track n, s => { s with tr := growTracks s.tb n (n + 1) s.tr, cur := n }
  | .channel n, s => let t := s.t; s.setT { t with ch := clamp 1 n 16 - 1 }
  | .voice _, s => s
  | .keyShift k, s => { s with kshift := k }
  | .trackKey k, s => let t := s.t; s.setT { t with key := k }
  | .keyFlag flag semis, s =>
    { s with keyflag := (List.range 12).map (fun i => if semis.contains i then flag else 0) }
  | .trackSync, s => { s with tr := s.tr.map (fun t => { t with tp := s.t.tp }) }
  | .play parts, s =>
    let r := playParts parts 1 s.t.tp s.t.tp s
    { r.2 with tr := r.2.tr.map (fun t => { t with tp := r.1 }), cur := s.cur }
/-- PLAY: part i on track i from the common start; returns the latest end and the state -/
def playParts : List (List Cmd) → Nat → Int → Int → St → Int × St
  | [], _, _, last, s => (last, s)
  | p :: ps, i, start, last, s =>
    let s1 := { s with tr := growTracks s.tb i (i + 1) s.tr, cur := i }
    let s2 := s1.setT { s1.t with tp := start }
    let s3 := semL p s2
    playParts ps (i + 1) start (if s3.t.tp > last then s3.t.tp else last) s3
def semL : List Cmd → St → St
  | [], s => s
  | c :: cs, s => semL cs (sem c s)
end

/-- the sounded notes of a track as (tick, status, key, velocity) note-on/off pairs, in the order
    the SMF track lists them (stable by tick) -/
def stream (t : Trk) : List (Int × Int × Int × Int) :=
  let evs := t.ev.flatMap (fun e => [(e.time, 0x90 + e.ch, e.key, e.vel), (e.time + e.dur, 0x80 + e.ch, e.key, e.vel)])
  evs.mergeSort (fun a b => decide (a.1 ≤ b.1))

/-- `KeyFlag=(a,b,c,d,e,f,g)`: one value per note name in the order a b c d e f g (at most seven are read); the value of a name is
    written to its semitone (a 9, b 11, c 0, d 2, e 4, f 5, g 7); every other entry is 0 -/
def keyFlagOfList (vals : List Int) : List Int :=
  let idx : List Nat := [9, 11, 0, 2, 4, 5, 7]
  (List.range 12).map (fun i => match (idx.zip (vals.take 7)).find? (fun p => p.1 == i) with
    | some p => p.2
    | none => 0)

end Sakura.Core
