import SakuraVerif.Model.Expr
/-! # Spec.Script — reference interpreter of the script sub-language (IF/WHILE/FOR/BREAK/CONTINUE,
    user functions, PRINT, variables) used as the executable specification for C11.  It follows
    the documented behaviour: one branch of IF; loops run while the condition holds; BREAK/CONTINUE
    act on the innermost loop; the iteration limit; calls bind arguments positionally with declared
    defaults, return the value of RETURN / Result, and work on a fresh scope that is dropped
    afterwards. -/
namespace Sakura.Script
open Sakura.Ex

inductive Expr where
  | lit (i : Int)
  | var (x : String)
  | bin (op : Nat) (a b : Expr)
  | call (f : String) (args : List Expr)

inductive Stmt where
  | print (e : Expr)
  | note (n : Int)
  | decl (x : String) (e : Expr)
  | assign (x : String) (e : Expr)
  | inc (x : String) (d : Int)
  | ifte (c : Expr) (a b : List Stmt)
  | while (c : Expr) (body : List Stmt)
  | for (x : String) (init : Expr) (c : Expr) (incr : Stmt) (body : List Stmt)
  | brk | cont
  | ret (e : Expr)
  | callS (f : String) (args : List Expr)

structure Func where
  name : String
  params : List (String × Option Int)
  body : List Stmt

structure St where
  scopes : List (List (String × Option Val))    -- innermost first; `none` = SValue::None
  log : List String := []
  notes : List Int := []
  flag : Nat := 0

def maxLoop : Nat := 10000

def lookup (x : String) : List (List (String × Option Val)) → Option Val
  | [] => none
  | sc :: rest => match sc.find? (fun p => p.1 == x) with
    | some p => p.2
    | none => lookup x rest

/-- insert into the current (innermost) scope -/
def insertTop (x : String) (v : Option Val) (s : St) : St :=
  match s.scopes with
  | [] => { s with scopes := [[(x, v)]] }
  | sc :: rest => { s with scopes := ((x, v) :: sc.filter (fun p => p.1 != x)) :: rest }

def toVal (v : Option Val) : Val := v.getD (.int 0)
def showV : Option Val → String
  | none => ""
  | some v => String.ofList (v.toS.map Char.ofNat)

/-- binary operators on possibly-absent values (`SValue::None`, e.g. the value of a call that never
    RETURNs): equality with `None` on the right asks whether the left side is `None` too; everywhere
    else `None` counts as 0 -/
def evalOpOpt (op : Nat) (va vb : Option Val) : Val :=
  match op, vb with
  | 5, none => .bool va.isNone
  | 6, none => .bool (!va.isNone)
  | _, _ => evalOp op (toVal va) (toVal vb)

mutual
def evalE (fs : List Func) : Nat → Expr → St → Option Val × St
  | 0, _, s => (none, s)
  | _+1, .lit i, s => (some (.int i), s)
  | _+1, .var x, s => (lookup x s.scopes, s)
  | f+1, .bin op a b, s =>
    let (va, s1) := evalE fs f a s
    let (vb, s2) := evalE fs f b s1
    (some (evalOpOpt op va vb), s2)
  | f+1, .call fn args, s => callF fs f fn args s
def evalArgs (fs : List Func) : Nat → List Expr → St → List (Option Val) × St
  | 0, _, s => ([], s)
  | _+1, [], s => ([], s)
  | f+1, e :: es, s =>
    let (v, s1) := evalE fs f e s
    let (vs, s2) := evalArgs fs f es s1
    (v :: vs, s2)
/-- a call: fresh scope, arguments evaluated after the scope is pushed, positional binding with
    declared defaults, body, flag restored, scope dropped; the value is `Result` of that scope -/
def callF (fs : List Func) : Nat → String → List Expr → St → Option Val × St
  | 0, _, _, s => (none, s)
  | f+1, fn, args, s =>
    match fs.find? (fun fd => fd.name == fn) with
    | none => (none, s)
    | some fd =>
      let s0 := { s with scopes := [] :: s.scopes }
      let (vs, s1) := evalArgs fs f args s0
      let bind := fun (st : St) (p : (String × Option Int) × Nat) =>
        let v := match vs.getD p.2 none with
          | some v => some v
          | none => p.1.2.map Val.int
        insertTop p.1.1 v st
      let s2 := (fd.params.zipIdx).foldl bind s1
      let saved := s2.flag
      let s3 := execL fs f fd.body s2
      let res := match s3.scopes with
        | sc :: _ => (match sc.find? (fun p => p.1 == "Result") with | some p => p.2 | none => none)
        | [] => none
      (res, { s3 with flag := saved, scopes := s3.scopes.drop 1 })
def execS (fs : List Func) : Nat → Stmt → St → St
  | 0, _, s => s
  | f+1, .print e, s =>
    let (v, s1) := evalE fs f e s
    { s1 with log := s1.log ++ ["[PRINT](0) " ++ showV v] }
  | _+1, .note n, s => { s with notes := s.notes ++ [n] }
  | f+1, .decl x e, s => let (v, s1) := evalE fs f e s; insertTop x v s1
  | f+1, .assign x e, s => let (v, s1) := evalE fs f e s; insertTop x v s1
  | _+1, .inc x d, s => insertTop x (some (.int ((toVal (lookup x s.scopes)).toI + d))) s
  | f+1, .ifte c a b, s =>
    let (v, s1) := evalE fs f c s
    if (toVal v).toI ≠ 0 then execL fs f a s1 else execL fs f b s1
  | f+1, .while c body, s => whileLoop fs f c body 0 s
  | f+1, .for x init c incr body, s =>
    let (v, s1) := evalE fs f init s
    forLoop fs f c incr body 0 (insertTop x v s1)
  | _+1, .brk, s => { s with flag := 1 }
  | _+1, .cont, s => { s with flag := 2 }
  | f+1, .ret e, s => let (v, s1) := evalE fs f e s; { insertTop "Result" v s1 with flag := 3 }
  | f+1, .callS fn args, s => (callF fs f fn args s).2
/-- a statement list stops as soon as a BREAK/CONTINUE/RETURN flag is pending -/
def execL (fs : List Func) : Nat → List Stmt → St → St
  | 0, _, s => s
  | _+1, [], s => s
  | f+1, st :: rest, s => if s.flag ≠ 0 then s else execL fs f rest (execS fs f st s)
def whileLoop (fs : List Func) : Nat → Expr → List Stmt → Nat → St → St
  | 0, _, _, _, s => s
  | f+1, c, body, cnt, s =>
    let (v, s1) := evalE fs f c s
    if (toVal v).toB = false then s1 else
    let s2 := execL fs f body s1
    if cnt + 1 > maxLoop then
      let s3 := { s2 with log := s2.log ++ ["[ERROR](0) Loop too many times WHILE(>10000)"] }
      if s3.flag = 1 ∨ s3.flag = 2 then { s3 with flag := 0 } else s3
    else if s2.flag = 1 then { s2 with flag := 0 }
    else if s2.flag = 2 then whileLoop fs f c body (cnt + 1) { s2 with flag := 0 }
    else if s2.flag = 3 then s2
    else whileLoop fs f c body (cnt + 1) s2
def forLoop (fs : List Func) : Nat → Expr → Stmt → List Stmt → Nat → St → St
  | 0, _, _, _, _, s => s
  | f+1, c, incr, body, cnt, s =>
    if s.flag ≠ 0 then s else
    let (v, s1) := evalE fs f c s
    if (toVal v).toB = false then s1 else
    let s2 := execL fs f body s1
    if cnt + 1 > maxLoop then
      let s3 := { s2 with log := s2.log ++ ["[ERROR](0) Loop too many times FOR(>10000)"] }
      if s3.flag = 1 ∨ s3.flag = 2 then { s3 with flag := 0 } else s3
    else if s2.flag = 1 then { s2 with flag := 0 }
    else if s2.flag = 2 then forLoop fs f c incr body (cnt + 1) (execS fs f incr { s2 with flag := 0 })
    else if s2.flag = 3 then s2
    else forLoop fs f c incr body (cnt + 1) (execS fs f incr s2)
end

def run (fs : List Func) (prog : List Stmt) (fuel : Nat) : St :=
  execL fs fuel prog { scopes := [[]] }

end Sakura.Script
