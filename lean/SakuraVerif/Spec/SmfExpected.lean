import SakuraVerif.Model.Smf
import SakuraVerif.Spec.Smf
/-! What a decoded track must contain for a given (normalised) event list: the reading of C02. -/
namespace Sakura.Spec
open Sakura

/-- the events the property covers: channel 0..15, meta events with a one-byte length equal to the
    payload, SysEx starting with F0, byte payloads, no verbatim (`DirectSMF`) bytes -/
def Valid (e : Event) : Prop :=
  0 ≤ e.ch ∧ e.ch < 16 ∧
  match e.kind with
  | .metaEv => e.v1 = 255 ∧ 0 ≤ e.v2 ∧ e.v2 < 128 ∧ e.v2 ≠ 0x2F ∧ e.v3 = e.data.length ∧ e.data.length < 128
                ∧ e.data.all (· < 256) = true
  | .sysex => e.data = [] ∨ (e.data.head? = some 0xF0 ∧ e.data.all (· < 256) = true)
  | .directSmf => e.data = []
  | _ => True

instance (e : Event) : Decidable (Valid e) := by
  unfold Valid; cases e.kind <;> exact inferInstance

/-- ticks are non-decreasing from `tp` on (what the stable sort establishes) -/
def SortedFrom : Int → List Event → Prop
  | _, [] => True
  | tp, e :: es => tp ≤ etime e ∧ SortedFrom (etime e) es

/-- the message(s) an event must decode to; values outside 7 bits appear clamped -/
def expected1 (d : Nat) (e : Event) : List (Nat × Msg) :=
  let ch := e.ch.toNat
  match e.kind with
  | .noteOn => [(d, .noteOn ch (clamp7 e.v1) (clamp7 e.v3))]
  | .noteOff => [(d, .noteOff ch (clamp7 e.v1) (clamp7 e.v3))]
  | .voice => [(d, .prog ch (clamp7 e.v1))]
  | .cc => [(d, .cc ch (clamp7 e.v1) (clamp7 e.v2))]
  | .metaEv => [(d, .metaM e.v2.toNat e.data)]
  | .sysex => [(d, .sysex e.data.tail)]
  | .pitchBend => [(d, .bend ch (clamp14 e.v1 % 128).toNat ((clamp14 e.v1 / 128) % 128).toNat)]
  | .pitchBendRange =>
      let r : Nat := if 0 ≤ e.v1 ∧ e.v1 ≤ 24 then e.v1.toNat else 0
      [(d, .cc ch 0x65 0), (0, .cc ch 0x64 0), (0, .cc ch 0x06 r)]
  | .directSmf => []

def expected : Int → List Event → List (Nat × Msg)
  | _, [] => []
  | tp, e :: es =>
    if skipped e then expected tp es
    else expected1 (etime e - tp).toNat e ++ expected (etime e) es

def eotMsg : Nat × Msg := (0, .metaM 0x2F [])

end Sakura.Spec
