import SakuraVerif.Model.Vlq
/-! Independent specification of the Standard MIDI File 1.0 format: a strict container parser and a
    track-event decoder written from the standard, not from the writer. -/
namespace Sakura.Spec

open Sakura (decodeVlq)

/-! ### container -/

def rd16 : List Nat → Option (Nat × List Nat)
  | a :: b :: r => if a < 256 ∧ b < 256 then some (a * 256 + b, r) else none
  | _ => none
def rd32 : List Nat → Option (Nat × List Nat)
  | a :: b :: c :: d :: r =>
    if a < 256 ∧ b < 256 ∧ c < 256 ∧ d < 256 then some (((a * 256 + b) * 256 + c) * 256 + d, r) else none
  | _ => none

structure Header where
  fmt : Nat
  ntrks : Nat
  division : Nat
deriving DecidableEq, Repr

/-- exactly `n` chunks `MTrk len body` and then nothing -/
def parseChunks : Nat → List Nat → Option (List (List Nat))
  | 0, bs => if bs = [] then some [] else none
  | n+1, bs =>
    match bs with
    | 77 :: 84 :: 114 :: 107 :: r =>
      match rd32 r with
      | some (len, r') =>
        if len ≤ r'.length then
          match parseChunks n (r'.drop len) with
          | some cs => some (r'.take len :: cs)
          | none => none
        else none
      | none => none
    | _ => none

/-- the same function without measuring the whole remaining file at every chunk (what the compiled driver runs; the equation
    below makes the compiler substitute it, so files with tens of thousands of chunks are judged in linear time) -/
def parseChunksFast : Nat → List Nat → Option (List (List Nat))
  | 0, bs => if bs = [] then some [] else none
  | n+1, bs =>
    match bs with
    | 77 :: 84 :: 114 :: 107 :: r =>
      match rd32 r with
      | some (len, r') =>
        if (r'.take len).length = len then
          match parseChunksFast n (r'.drop len) with
          | some cs => some (r'.take len :: cs)
          | none => none
        else none
      | none => none
    | _ => none

@[csimp] theorem parseChunks_eq_fast : @parseChunks = @parseChunksFast := by
  funext n
  induction n with
  | zero => funext bs; simp [parseChunks, parseChunksFast]
  | succ n ih =>
    funext bs
    unfold parseChunks parseChunksFast
    split
    · split
      · rename_i len r' _
        have : (len ≤ r'.length) ↔ ((r'.take len).length = len) := by
          rw [List.length_take]; omega
        by_cases h : len ≤ r'.length
        · rw [if_pos h, if_pos (this.mp h), ih]
        · rw [if_neg h, if_neg (fun h' => h (this.mpr h'))]
      · rfl
    · rfl

/-- `MThd 00000006 fmt ntrks division` then exactly `ntrks` chunks; `none` on anything else -/
def parseSmf : List Nat → Option (Header × List (List Nat))
  | 77 :: 84 :: 104 :: 100 :: r =>
    match rd32 r with
    | some (6, r1) =>
      match rd16 r1 with
      | some (fmt, r2) => match rd16 r2 with
        | some (n, r3) => match rd16 r3 with
          | some (dv, r4) => match parseChunks n r4 with
            | some cs => some (⟨fmt, n, dv⟩, cs)
            | none => none
          | none => none
        | none => none
      | none => none
    | _ => none
  | _ => none

/-! ### track events -/

inductive Msg where
  | noteOff (ch k v : Nat) | noteOn (ch k v : Nat) | polyAt (ch k v : Nat) | cc (ch c v : Nat)
  | prog (ch p : Nat) | chanAt (ch v : Nat)
  | bend (ch lsb msb : Nat) | metaM (ty : Nat) (d : List Nat) | sysex (d : List Nat)
deriving DecidableEq, Repr

def d7 (b : Nat) : Bool := b < 128

/-- one event after its delta time: message and remaining bytes.  Explicit status bytes only
    (the writer never uses running status); data bytes must be 7-bit, meta/SysEx lengths are
    variable-length quantities and must fit the remaining bytes, payload bytes must be bytes. -/
def decodeMsg : List Nat → Option (Msg × List Nat)
  | s :: r =>
    let hi := s / 16; let ch := s % 16
    if hi = 0x8 then match r with
      | k :: v :: r' => if d7 k && d7 v then some (.noteOff ch k v, r') else none
      | _ => none
    else if hi = 0x9 then match r with
      | k :: v :: r' => if d7 k && d7 v then some (.noteOn ch k v, r') else none
      | _ => none
    else if hi = 0xA then match r with
      | k :: v :: r' => if d7 k && d7 v then some (.polyAt ch k v, r') else none
      | _ => none
    else if hi = 0xB then match r with
      | c :: v :: r' => if d7 c && d7 v then some (.cc ch c v, r') else none
      | _ => none
    else if hi = 0xC then match r with
      | p :: r' => if d7 p then some (.prog ch p, r') else none
      | _ => none
    else if hi = 0xD then match r with
      | p :: r' => if d7 p then some (.chanAt ch p, r') else none
      | _ => none
    else if hi = 0xE then match r with
      | l :: m :: r' => if d7 l && d7 m then some (.bend ch l m, r') else none
      | _ => none
    else if s = 0xFF then match r with
      | ty :: r1 => if d7 ty then
          match decodeVlq 0 r1 with
          | some (n, r2) => if n ≤ r2.length && (r2.take n).all (· < 256) then some (.metaM ty (r2.take n), r2.drop n) else none
          | none => none
        else none
      | _ => none
    else if s = 0xF0 then
      match decodeVlq 0 r with
      | some (n, r2) => if n ≤ r2.length && (r2.take n).all (· < 256) then some (.sysex (r2.take n), r2.drop n) else none
      | none => none
    else none
  | [] => none

def isEot (m : Msg) : Bool := m == .metaM 0x2F []

/-- whole track body: (delta, message)*, End-of-Track exactly once and last; `fuel` bounds the
    number of events (any value ≥ the byte length is enough) -/
def decodeTrack : Nat → List Nat → Option (List (Nat × Msg))
  | 0, _ => none
  | f+1, bs =>
    match decodeVlq 0 bs with
    | none => none
    | some (d, r) =>
      match decodeMsg r with
      | none => none
      | some (m, r') =>
        if isEot m then (if r' = [] then some [(d, m)] else none)
        else match decodeTrack f r' with
          | some rest => some ((d, m) :: rest)
          | none => none

/-- delta times must be in the SMF range (at most four VLQ bytes) -/
def deltasInRange (l : List (Nat × Msg)) : Bool := l.all (fun p => p.1 < 268435456)

end Sakura.Spec
