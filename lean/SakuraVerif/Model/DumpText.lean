import SakuraVerif.Model.Dump
/-! # Literal model of `midi::dump_midi` — the whole text

The reader side of `midi.rs` as it is written: header checks, the per-track loop with its cursor, the per-kind
formatting and cursor advance of `dump_midi_event` / `dump_midi_event_meta`, the text payload reader
`array_read_str`.  Bytes past the end of the data read as 0 (`byte_at`).  The output is the list of lines the
real function logs; the `dumptext` stream compares it with the real text on compiler outputs *and* on arbitrary
byte strings. -/
namespace Sakura.Dt
open Sakura

def byteAt (b : List Nat) (i : Nat) : Nat := b.getD i 0

def hexd (n : Nat) : Char := if n < 10 then Char.ofNat (48 + n) else Char.ofNat (87 + n)
def hex2 (n : Nat) : String := String.ofList [hexd (n / 16 % 16), hexd (n % 16)]
def hexD (n : Nat) : Char := if n < 10 then Char.ofNat (48 + n) else Char.ofNat (55 + n)
def hex2U (n : Nat) : String := String.ofList [hexD (n / 16 % 16), hexD (n % 16)]
def pad3 (n : Nat) : String :=
  let s := toString n
  if s.length ≥ 3 then s else String.ofList (List.replicate (3 - s.length) '0') ++ s

def isCont (c : Nat) : Bool := 0x80 ≤ c && c ≤ 0xBF

/-- strict UTF-8 decoding, as `String::from_utf8` decides it -/
def utf8Strict : Nat → List Nat → Option (List Nat)
  | 0, _ => none
  | _, [] => some []
  | f+1, b :: r =>
    if b < 0x80 then (utf8Strict f r).map (b :: ·)
    else if 0xC2 ≤ b ∧ b ≤ 0xDF then
      match r with
      | c :: r' => if isCont c then (utf8Strict f r').map (((b % 32) * 64 + c % 64) :: ·) else none
      | _ => none
    else if 0xE0 ≤ b ∧ b ≤ 0xEF then
      match r with
      | c :: d :: r' =>
        let lo := if b = 0xE0 then 0xA0 else 0x80
        let hi := if b = 0xED then 0x9F else 0xBF
        if lo ≤ c ∧ c ≤ hi ∧ isCont d then (utf8Strict f r').map (((b % 16) * 4096 + (c % 64) * 64 + d % 64) :: ·) else none
      | _ => none
    else if 0xF0 ≤ b ∧ b ≤ 0xF4 then
      match r with
      | c :: d :: e :: r' =>
        let lo := if b = 0xF0 then 0x90 else 0x80
        let hi := if b = 0xF4 then 0x8F else 0xBF
        if lo ≤ c ∧ c ≤ hi ∧ isCont d ∧ isCont e then
          (utf8Strict f r').map (((b % 8) * 262144 + (c % 64) * 4096 + (d % 64) * 64 + e % 64) :: ·) else none
      | _ => none
    else none

/-- `array_read_str(a, pos, len)`: the bytes `pos .. min(pos+len, |a|)` as UTF-8, or byte by byte when they are not valid UTF-8 -/
def readStr (a : List Nat) (pos len : Nat) : String :=
  let e := min (pos + len) a.length
  let sub := (a.take e).drop (min pos e)
  match utf8Strict (sub.length + 1) sub with
  | some cs => String.ofList (cs.map Char.ofNat)
  | none => String.ofList (sub.map Char.ofNat)

def noteName (no : Nat) : String :=
  s!"o{no / 12}" ++ (match no % 12 with
    | 0 => "c" | 1 => "c#" | 2 => "d" | 3 => "d#" | 4 => "e" | 5 => "f" | 6 => "f#" | 7 => "g" | 8 => "g#" | 9 => "a" | 10 => "a#" | _ => "b")

structure Info where
  frac : Nat := 4
  deno : Nat := 4
  eot : Bool := false

/-- `{:02X}` of a `usize`: upper-case hexadecimal, at least two digits -/
def hexUp (n : Nat) : String :=
  if n < 256 then hex2U n else String.ofList ((Nat.toDigits 16 n).map Char.toUpper)

/-- the data bytes of a SysEx: as many as its length field says (or as the file still holds), separated by commas; an F7 among
    them is data like any other byte -/
def sysexData (b : List Nat) : Nat → Nat → String → String × Nat
  | 0, pos, m => (m, pos)
  | n+1, pos, m =>
    if pos < b.length then
      sysexData b n (pos + 1) (if n = 0 then m ++ hex2U (byteAt b pos) else m ++ hex2U (byteAt b pos) ++ ",")
    else (m, pos)

def metaNameOf (ty len : Nat) : String :=
  match ty with
  | 1 => "TEXT" | 2 => "COPYRIGHT" | 3 => "TRACK_NAME" | 4 => "INSTRUMENT_NAME" | 5 => "LYRIC" | 6 => "MARKER" | 7 => "CUE_POINT"
  | _ => s!"// Meta Type=${hex2 ty} Length={len} Text="

/-- `2i32.wrapping_pow(dd) as usize` -/
def pow2w (dd : Nat) : Nat :=
  if dd < 31 then 2 ^ dd else if dd = 31 then 18446744071562067968 else 0

/-- `dump_midi_event_meta`: text, new cursor, new reader state -/
def metaStep (b : List Nat) (p : Nat) (info : Info) : String × Nat × Info :=
  let mtype := byteAt b p
  let ty := byteAt b (p + 1)
  let len := byteAt b (p + 2)
  if mtype = 0xFF then
    if ty = 0x2F then ("/* __END_OF_TRACK__ */", p + 3 + len, { info with eot := true })
    else if ty = 0x51 then
      let mpq := byteAt b (p + 3) * 65536 + byteAt b (p + 4) * 256 + byteAt b (p + 5)
      (s!"Tempo={if mpq = 0 then 0 else 60000000 / mpq}", p + 3 + len, info)
    else if ty = 0x58 then
      let nn := byteAt b (p + 3)
      let dd := byteAt b (p + 4)
      (s!"TimeSig={nn}/{pow2w dd}", p + 3 + len, { info with frac := nn, deno := pow2w dd })
    else (metaNameOf ty len ++ "{" ++ readStr b (p + 3) len ++ "};", p + 3 + len, info)
  else if mtype = 0xF0 then
    let d := readDelta b (b.length + 1) (p + 1) 0      -- the length field, a variable-length quantity
    let r := sysexData b d.1 d.2 ("F0," ++ "/*len:" ++ hexUp d.1 ++ "*/")
    ("SysEx$=" ++ r.1 ++ ";", r.2, info)
  else (s!"// [ERROR] Unknown meta event...={hex2 ty}", p, info)

/-- `dump_midi_event` -/
def eventStep (b : List Nat) (p : Nat) (info : Info) : String × Nat × Info :=
  let st := byteAt b p
  let et := st / 16 * 16
  let d1 := byteAt b (p + 1)
  let d2 := byteAt b (p + 2)
  if et = 0x80 then (s!"NoteOff(${hex2 d1},${hex2 d2}) // {noteName d1}", p + 3, info)
  else if et = 0x90 then (s!"NoteOn(${hex2 d1},${hex2 d2})  // {noteName d1},,{d2}", p + 3, info)
  else if et = 0xA0 then (s!"DirectSMF(${hex2 st},${hex2 d1},${hex2 d2})", p + 3, info)
  else if et = 0xB0 then (s!"CC(${hex2 d1},${hex2 d2})", p + 3, info)
  else if et = 0xC0 then (s!"Voice({d1 + 1}) // ${hex2 st},${hex2 d1}", p + 2, info)
  else if et = 0xD0 then (s!"DirectSMF(${hex2 st},${hex2 d1}) // Channel after touch", p + 2, info)
  else if et = 0xE0 then
    let raw := (d2 <<< 7) ||| d1      -- an OR, not a sum: a data byte ≥ 128 (malformed file) overlaps
    (s!"PitchBend({(raw : Int) - 8192}) /* p{raw / 128 % 128} */", p + 3, info)
  else if et = 0xF0 then metaStep b p info
  else (s!"// [ERROR] Unknown event...={hex2 et}", p, info)

/-- `(timebase as f32 * 4.0 / deno as f32) as usize`, then the zero guard.  Exact for the values a file can hold
    (time base < 65536, denominator a power of two or 0): for deno = 0 the quotient is +∞, which saturates. -/
def beatBase (tb deno : Nat) : Nat :=
  let q := if deno = 0 then (if tb = 0 then 0 else 18446744073709551615) else tb * 4 / deno
  if q = 0 then max tb 1 else q

/-- the per-track loop of `dump_midi` -/
def trackGo (b : List Nat) (tb : Nat) : Nat → Nat → Nat → Nat → Info → List String → List String × Nat × Info
  | 0, pos, _, _, info, acc => (acc, pos, info)
  | f+1, pos, endPos, time, info, acc =>
    if (pos < endPos ∨ info.eot = false) ∧ pos < b.length then
      let d := readDelta b (b.length + 1) pos 0
      let time := (time + d.1) % 18446744073709551616      -- usize arithmetic
      let pos := d.2
      let bb := beatBase tb info.deno
      let tick := time % bb
      let base := time / bb
      let fr := if info.frac = 0 then 1 else info.frac
      let r := eventStep b pos info
      trackGo b tb f r.2.1 endPos time r.2.2 (acc ++ [s!"TIME({pad3 (base / fr + 1)}:{pad3 (base % fr + 1)}:{pad3 tick}) {r.1}"])
    else (acc, pos, info)

def u16 (b : List Nat) (pos : Nat) : Nat :=
  let v := if pos < b.length then byteAt b pos else 0
  if pos + 1 < b.length then v * 256 + byteAt b (pos + 1) else v

def u32 (b : List Nat) (pos : Nat) : Nat :=
  let v := if pos < b.length then byteAt b pos else 0
  let v := if pos + 1 < b.length then v * 256 + byteAt b (pos + 1) else v
  let v := if pos + 2 < b.length then v * 256 + byteAt b (pos + 2) else v
  if pos + 3 < b.length then v * 256 + byteAt b (pos + 3) else v

def tracksGo (b : List Nat) (tb : Nat) : Nat → Nat → Nat → Info → List String → List String
  | 0, _, _, _, acc => acc
  | n+1, no, pos, info, acc =>
    let acc := acc ++ ["// ----- TRACK -----", s!"TRACK({no})"]
    let mtrk := readStr b pos 4
    if mtrk ≠ "MTrk" then acc ++ [s!"// [ERROR] Track header broken MTrk!={mtrk}"]
    else
      let size := u32 b (pos + 4)
      let r := trackGo b tb (b.length + 2) (pos + 8) (pos + 8 + size) 0 info []
      tracksGo b tb n (no + 1) r.2.1 { r.2.2 with eot := false } (acc ++ r.1)

/-- `dump_midi(bin, false)`: the lines of the returned text -/
def dump (b : List Nat) : List String :=
  if readStr b 0 4 ≠ "MThd" then ["[ERROR] Not Midi file"]
  else if u32 b 4 ≠ 6 then [s!"[ERROR] Midi MThd size error 6!={u32 b 4}"]
  else if u16 b 8 > 3 then ["[ERROR] Midi Format error"]
  else
    let hdr := ["// ----- MIDI DUMP DATA -----", s!"/// [MThd] midi format={u16 b 8}", s!"/// [MThd] track_count={u16 b 10}", s!"TIMEBASE={u16 b 12}"]
    tracksGo b (u16 b 12) (u16 b 10) 0 14 {} hdr

end Sakura.Dt
