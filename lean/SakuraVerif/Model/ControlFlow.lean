/-! Model of `runner::exec_while` / `exec_for` as written (after the repair of the iteration-limit
    cut-off), parametric in the effect of the condition, the body and the increment. -/
namespace Sakura.Ctl

structure Ops (σ : Type) where
  cond : σ → Bool
  body : σ → σ
  inc : σ → σ               -- FOR only
  flag : σ → Nat            -- Flags.break_flag: 0 none, 1 break, 2 continue, 3 return
  clearFlag : σ → σ
  logLimit : σ → σ          -- add the "loop too many times" entry

/-- the cut-off: log, then clear a pending BREAK/CONTINUE of the last pass -/
def cutOff {σ} (o : Ops σ) (s : σ) : σ :=
  if o.flag (o.logLimit s) = 1 ∨ o.flag (o.logLimit s) = 2 then o.clearFlag (o.logLimit s) else o.logLimit s

/-- `exec_while` -/
def execWhile {σ} (o : Ops σ) (maxLoop : Nat) : Nat → Nat → σ → σ
  | 0, _, s => s
  | f+1, c, s =>
    if o.cond s = false then s else
    if c + 1 > maxLoop then cutOff o (o.body s) else
    if o.flag (o.body s) = 1 then o.clearFlag (o.body s)
    else if o.flag (o.body s) = 2 then execWhile o maxLoop f (c+1) (o.clearFlag (o.body s))
    else if o.flag (o.body s) = 3 then o.body s
    else execWhile o maxLoop f (c+1) (o.body s)

/-- `exec_for` after the initialiser -/
def execFor {σ} (o : Ops σ) (maxLoop : Nat) : Nat → Nat → σ → σ
  | 0, _, s => s
  | f+1, c, s =>
    if o.cond s = false then s else
    if c + 1 > maxLoop then cutOff o (o.body s) else
    if o.flag (o.body s) = 1 then o.clearFlag (o.body s)
    else if o.flag (o.body s) = 2 then execFor o maxLoop f (c+1) (o.inc (o.clearFlag (o.body s)))
    else execFor o maxLoop f (c+1) (o.inc (o.body s))

def iterate {σ} (f : σ → σ) : Nat → σ → σ
  | 0, s => s
  | k+1, s => iterate f k (f s)

/-- condition true exactly `k` more times, body never raises a flag -/
def RunsFor {σ} (o : Ops σ) (step : σ → σ) : Nat → σ → Prop
  | 0, s => o.cond s = false
  | k+1, s => o.cond s = true ∧ o.flag (o.body s) = 0 ∧ RunsFor o step k (step s)

end Sakura.Ctl
