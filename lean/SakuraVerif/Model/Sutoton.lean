/-! Model of `sutoton.rs` (`convert`) and `token::zen2han`.  Text is `List Nat` of Unicode scalar
    values; the cursor is the remaining suffix (convert only moves forward). -/
namespace Sakura.Sut

/-- `token::zen2han` -/
def zen2han (c : Nat) : Nat :=
  if 0x20 ≤ c ∧ c ≤ 0x7E then c
  else if 0xFF01 ≤ c ∧ c ≤ 0xFF5E then c - 0xFF01 + 0x21
  else if 0x2002 ≤ c ∧ c ≤ 0x200B then 0x20
  else if c = 0x3000 ∨ c = 0xFEFF then 0x20
  else c

structure Item where
  name : List Nat
  value : List Nat
deriving DecidableEq, Repr

def utf8Len (c : Nat) : Nat := if c < 0x80 then 1 else if c < 0x800 then 2 else if c < 0x10000 then 3 else 4
/-- `String::len()` (UTF-8 bytes) -/
def blen : List Nat → Nat
  | [] => 0
  | c :: cs => utf8Len c + blen cs

/-- `SutotonList::set_item`: an existing name gets the new value in place, a new one is appended;
    empty names are ignored -/
def setItem (items : List Item) (name value : List Nat) : List Item :=
  if name.isEmpty then items
  else if items.any (fun it => it.name == name) then
    items.map (fun it => if it.name == name then { it with value := value } else it)
  else items ++ [⟨name, value⟩]

/-- `sort_items`: stable sort by byte length of the name, descending -/
def sortItems (items : List Item) : List Item :=
  items.mergeSort (fun a b => decide (blen b.name ≤ blen a.name))

/-- `cur.eq(&cmd.name)` scanning the items in order -/
def firstMatch (items : List Item) (rest : List Nat) : Option Item :=
  items.find? (fun it => it.name.isPrefixOf rest)

/-- `get_token_s(sp)`: text before the first occurrence of `sp` (consumed), or everything -/
def getTokenS (sp : List Nat) : List Nat → List Nat × List Nat
  | [] => ([], [])
  | c :: cs =>
    if sp.isPrefixOf (c :: cs) then ([], (c :: cs).drop sp.length)
    else ((getTokenS sp cs).1.cons c, (getTokenS sp cs).2)

/-- `get_token_nest('{','}')` after the optional opening brace has been handled: level, rest -/
def nestGo : Nat → List Nat → List Nat × List Nat
  | _, [] => ([], [])
  | level, c :: cs =>
    if c = 123 then ((nestGo (level + 1) cs).1.cons c, (nestGo (level + 1) cs).2)
    else if c = 125 then
      (if level ≤ 1 then ([], cs) else ((nestGo (level - 1) cs).1.cons c, (nestGo (level - 1) cs).2))
    else ((nestGo level cs).1.cons c, (nestGo level cs).2)

def getTokenNest (cs : List Nat) : List Nat × List Nat :=
  match cs with
  | 123 :: r => nestGo 1 r
  | _ => nestGo 0 cs

/-- `skip_space`: blanks, tabs and `/* … */` comments -/
def skipSpace : Nat → List Nat → List Nat
  | 0, cs => cs
  | _, [] => []
  | f+1, c :: cs =>
    if c = 32 ∨ c = 9 then skipSpace f cs
    else if c = 47 then
      (match cs with
       | 42 :: _ => skipSpace f (getTokenS [42, 47] (c :: cs)).2
       | _ => c :: cs)
    else c :: cs

def peek (cs : List Nat) : Nat := cs.headD 0

/-! the `~{name}={value}` handler after the `~` has been skipped, in explicit stages -/
def dwAfterTilde (cs : List Nat) : List Nat := skipSpace (cs.length + 1) cs
def dwName (cs : List Nat) : List Nat := (getTokenNest (dwAfterTilde cs)).1
def dwAfterName (cs : List Nat) : List Nat :=
  skipSpace ((getTokenNest (dwAfterTilde cs)).2.length + 1) (getTokenNest (dwAfterTilde cs)).2
def dwAfterEq (cs : List Nat) : List Nat :=
  if peek (dwAfterName cs) = 61 ∧ dwAfterName cs ≠ [] then (dwAfterName cs).drop 1 else dwAfterName cs
def dwBeforeValue (cs : List Nat) : List Nat := skipSpace ((dwAfterEq cs).length + 1) (dwAfterEq cs)
def dwValue (cs : List Nat) : List Nat := (getTokenNest (dwBeforeValue cs)).1
def dwRest (cs : List Nat) : List Nat := (getTokenNest (dwBeforeValue cs)).2

/-- (new items, rest) -/
def defineWord (items : List Item) (cs : List Nat) : List Item × List Nat :=
  if peek (dwAfterTilde cs) ≠ 123 then (items, dwAfterTilde cs)
  else if peek (dwBeforeValue cs) ≠ 123 then (items, dwBeforeValue cs)
  else (sortItems (setItem items (dwName cs) (dwValue cs)), dwRest cs)

/-- what a definition leaves in the output: the line breaks written inside its name and value (line numbers of later messages) -/
def defineNl (cs : List Nat) : List Nat :=
  if peek (dwAfterTilde cs) ≠ 123 then []
  else if peek (dwBeforeValue cs) ≠ 123 then (dwName cs).filter (· = 10)
  else (dwName cs).filter (· = 10) ++ (dwValue cs).filter (· = 10)

/-- main loop of `convert` (before the final trim) -/
def convertLoop : Nat → List Item → List Nat → List Nat
  | 0, _, _ => []
  | _, _, [] => []
  | f+1, items, c :: cs =>
    let ch := zen2han c
    if ch = 123 then
      (match c, cs with
       | 123, 34 :: _ =>
         (getTokenS [34, 125] (c :: cs)).1 ++ [34, 125] ++ convertLoop f items (getTokenS [34, 125] (c :: cs)).2
       | _, _ => ch :: convertLoop f items cs)
    else if ch = 47 then
      (match c, cs with
       | 47, 47 :: _ => (getTokenS [10] (c :: cs)).1 ++ [10] ++ convertLoop f items (getTokenS [10] (c :: cs)).2
       | 47, 42 :: _ => (getTokenS [42, 47] (c :: cs)).1 ++ [42, 47] ++ convertLoop f items (getTokenS [42, 47] (c :: cs)).2
       | _, _ => ch :: convertLoop f items cs)
    else if ch = 126 ∨ ch = 0x203E then
      defineNl cs ++ convertLoop f (defineWord items cs).1 (defineWord items cs).2
    else
      match firstMatch items (c :: cs) with
      | some it => it.value ++ convertLoop f items ((c :: cs).drop it.name.length)
      | none => ch :: convertLoop f items cs

/-- Rust `char::is_whitespace` (White_Space property) -/
def isWs (c : Nat) : Bool :=
  (9 ≤ c && c ≤ 13) || c = 32 || c = 0x85 || c = 0xA0 || c = 0x1680 || (0x2000 ≤ c && c ≤ 0x200A) ||
  c = 0x2028 || c = 0x2029 || c = 0x202F || c = 0x205F || c = 0x3000

def trimAll : List Nat → List Nat
  | [] => []
  | c :: cs => if isWs c then trimAll cs else c :: cs

/-- leading blanks are dropped but line breaks are kept (line numbers of messages) -/
def trimStart : List Nat → List Nat
  | [] => []
  | c :: cs => if isWs c && c != 10 && c != 13 then trimStart cs else c :: cs

/-- `res.trim_end().trim_start_matches(whitespace except \n, \r)` -/
def trim (cs : List Nat) : List Nat := trimStart (trimAll cs.reverse).reverse

/-- `init_items` from the vocabulary rows in source order -/
def initItems (rows : List (List Nat × List Nat)) : List Item :=
  sortItems (rows.foldl (fun its r => setItem its r.1 r.2) [])

/-- `sutoton::convert` for a given vocabulary -/
def convert (rows : List (List Nat × List Nat)) (src : List Nat) : List Nat :=
  trim (convertLoop (src.length + 1) (initItems rows) src)

end Sakura.Sut
