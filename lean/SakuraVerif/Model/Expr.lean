/-! Model of the script-expression layer: the precedence-climbing parser `read_calc_level`
    (lexer.rs) over tokens, a minimal-parenthesis printer, `SValue` arithmetic (svalue.rs and the
    `CalcTree` arm of runner.rs) and the string built-ins (MID, SizeOf, REPLACE, CHR). -/
namespace Sakura.Ex

/-- operator ids: 0 `*` 1 `/` 2 `%` 3 `+` 4 `-` 5 `=` 6 `≠` 7 `>` 8 `≧` 9 `<` 10 `≦` 11 `&` 12 `|` -/
structure Op where
  id : Nat
  lvl : Nat          -- 1 = tightest (* / %), 2 (+ -), 3 (comparisons), 4 (& |)
deriving DecidableEq, Repr

/-- `read_operator`'s priority table as levels -/
def lvlOf (id : Nat) : Nat := if id ≤ 2 then 1 else if id ≤ 4 then 2 else if id ≤ 10 then 3 else 4

inductive Tk where
  | atom (a : Nat) | op (o : Op) | lp | rp | neg
deriving DecidableEq, Repr

inductive Expr where
  | atom (a : Nat)
  | neg (e : Expr)
  | bin (o : Op) (a b : Expr)
deriving DecidableEq, Repr

def top : Nat := 4

mutual
/-- `read_value`: literal/variable/call (an atom), `( expr )`, or `-` value -/
def parseValue : Nat → List Tk → Option (Expr × List Tk)
  | 0, _ => none
  | _+1, .atom a :: r => some (.atom a, r)
  | f+1, .neg :: r =>
    match parseValue f r with
    | some (e, r') => some (.neg e, r')
    | none => none
  | f+1, .lp :: r =>
    match parseLevel f top r with
    | some (e, .rp :: r') => some (e, r')
    | _ => none
  | _+1, _ => none
/-- `read_calc_level(max_priority)` -/
def parseLevel : Nat → Nat → List Tk → Option (Expr × List Tk)
  | 0, _, _ => none
  | f+1, m, ts =>
    match parseValue f ts with
    | some (e, r) => parseLoop f m e r
    | none => none
/-- its `while` loop: an operator looser than `m` is left unconsumed; the right operand is read
    one level tighter, which makes equal levels associate to the left -/
def parseLoop : Nat → Nat → Expr → List Tk → Option (Expr × List Tk)
  | 0, _, _, _ => none
  | f+1, m, left, .op o :: r =>
    if o.lvl ≤ m then
      match parseLevel f (o.lvl - 1) r with
      | some (right, r') => parseLoop f m (.bin o left right) r'
      | none => none
    else some (left, .op o :: r)
  | _+1, _, left, ts => some (left, ts)
end

/-- printer with minimal parentheses; `m` = loosest level allowed unparenthesised -/
def print : Nat → Expr → List Tk
  | _, .atom a => [.atom a]
  | _, .neg e =>
    (match e with
     | .bin o a b => .neg :: .lp :: (print o.lvl a ++ (.op o :: print (o.lvl - 1) b)) ++ [.rp]
     | .atom a => [.neg, .atom a]
     | .neg e' => .neg :: print 0 (.neg e'))
  | m, .bin o a b =>
    if o.lvl ≤ m then print o.lvl a ++ (.op o :: print (o.lvl - 1) b)
    else .lp :: (print o.lvl a ++ (.op o :: print (o.lvl - 1) b)) ++ [.rp]

def wfE : Expr → Prop
  | .atom _ => True
  | .neg e => wfE e
  | .bin o a b => 1 ≤ o.lvl ∧ o.lvl ≤ top ∧ wfE a ∧ wfE b

/-! ### values -/

inductive Val where
  | int (i : Int) | bool (b : Bool) | str (s : List Nat)
deriving DecidableEq, Repr

def digitsNat : Nat → Nat → List Nat
  | 0, _ => []
  | f+1, n => if n < 10 then [48 + n] else digitsNat f (n / 10) ++ [48 + n % 10]
def showInt (i : Int) : List Nat :=
  if i < 0 then 45 :: digitsNat (i.natAbs + 1) i.natAbs else digitsNat (i.natAbs + 1) i.natAbs

/-- `str::parse::<isize>()`: optional sign, decimal digits only; failure = 0 -/
def parseIntStr (s : List Nat) : Int :=
  let go (ds : List Nat) : Option Int :=
    if ds.isEmpty || !ds.all (fun c => 48 ≤ c && c ≤ 57) then none
    else some (ds.foldl (fun (acc : Int) (c : Nat) => acc * 10 + ((c : Int) - 48)) (0 : Int))
  match s with
  | 45 :: r => (match go r with | some v => -v | none => 0)
  | 43 :: r => (go r).getD 0
  | _ => (go s).getD 0

def Val.toI : Val → Int
  | .int i => i | .bool b => if b then 1 else 0 | .str s => parseIntStr s
def Val.toB (v : Val) : Bool := v.toI != 0
def Val.toS : Val → List Nat
  | .int i => showInt i
  | .bool b => if b then [84, 82, 85, 69] else [70, 65, 76, 83, 69]   -- TRUE / FALSE
  | .str s => s
def Val.isStr : Val → Bool | .str _ => true | _ => false

/-- byte-wise (UTF-8) order of two texts = Rust `String` ordering; on scalar values the code-point
    order coincides with the UTF-8 byte order -/
def strLt : List Nat → List Nat → Bool
  | [], [] => false
  | [], _ :: _ => true
  | _ :: _, [] => false
  | a :: as, b :: bs => if a < b then true else if b < a then false else strLt as bs

/-- `SValue::eq` (matches on the argument) -/
def valEq (a b : Val) : Bool :=
  match b with
  | .int bi => a.toI == bi
  | .str bs => a.toS == bs
  | .bool _ => false
/-- `gt/lt/gteq/lteq` (match on self) -/
def valCmp (lt eq : Bool) (a b : Val) : Bool :=
  match a with
  | .int ai => (lt && decide (ai < b.toI)) || (eq && decide (ai = b.toI)) || (!lt && !eq && false)
  | .str as => (lt && strLt as b.toS) || (eq && as == b.toS)
  | .bool _ => false
def valGt (eq : Bool) (a b : Val) : Bool :=
  match a with
  | .int ai => decide (ai > b.toI) || (eq && decide (ai = b.toI))
  | .str as => strLt b.toS as || (eq && as == b.toS)
  | .bool _ => false

/-- the binary-operator arm of `CalcTree` -/
def evalOp (id : Nat) (a b : Val) : Val :=
  match id with
  | 0 => .int (a.toI * b.toI)
  | 1 => .int (if b.toI = 0 then 0 else Int.tdiv a.toI b.toI)
  | 2 => .int (if b.toI = 0 then 0 else Int.tmod a.toI b.toI)
  | 3 => if a.isStr || b.isStr then .str (a.toS ++ b.toS) else .int (a.toI + b.toI)
  | 4 => .int (a.toI - b.toI)
  | 5 => .bool (valEq a b)
  | 6 => .bool (!valEq a b)
  | 7 => .bool (valGt false a b)
  | 8 => .bool (valGt true a b)
  | 9 => .bool (valCmp true false a b)
  | 10 => .bool (valCmp true true a b)
  | 11 => .bool (a.toB && b.toB)
  | _ => .bool (a.toB || b.toB)

/-- evaluation of an expression tree; `-e` is `(-1) * e` -/
def evalTree (ρ : Nat → Val) : Expr → Val
  | .atom a => ρ a
  | .neg e => .int (-1 * (evalTree ρ e).toI)
  | .bin o a b => evalOp o.id (evalTree ρ a) (evalTree ρ b)

/-! ### string built-ins on scalar-value lists -/

/-- `MID(s, i, n)`: n characters from 1-based position i, clamped -/
def mid (s : List Nat) (i n : Nat) : List Nat := (s.drop (i - 1)).take n
/-- `SizeOf` of a string -/
def sizeOfStr (s : List Nat) : Nat := s.length
/-- `str::replace`: every non-overlapping occurrence, left to right -/
def replaceAll (fuel : Nat) (s pat rep : List Nat) : List Nat :=
  match fuel, s with
  | 0, _ => s
  | _, [] => if pat.isEmpty then rep else []
  | f+1, c :: cs =>
    if pat.isEmpty then rep ++ c :: replaceAll f cs pat rep
    else if pat.isPrefixOf (c :: cs) then rep ++ replaceAll f ((c :: cs).drop pat.length) pat rep
    else c :: replaceAll f cs pat rep

end Sakura.Ex
