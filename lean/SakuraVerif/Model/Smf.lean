import SakuraVerif.Model.Vlq
/-! Model of the SMF writer: `song.rs` (`split_note_off`, `events_sort`) and `midi.rs`
    (`generate_track`, `generate`).  Follows the code arm by arm, including its `as u8` casts. -/
namespace Sakura

inductive Kind where
  | noteOn | noteOff | cc | pitchBend | pitchBendRange | voice | metaEv | sysex | directSmf
deriving DecidableEq, Repr

structure Event where
  kind : Kind
  time : Int
  ch : Int
  v1 : Int
  v2 : Int
  v3 : Int
  data : List Nat
deriving DecidableEq, Repr

/-- Rust `x as u8` on an `isize` -/
def u8 (x : Int) : Nat := (x % 256).toNat

/-- `midi::to_data_byte`: clamp to 0..127 -/
def clamp7 (v : Int) : Nat := if v < 0 then 0 else if v > 127 then 127 else v.toNat

/-- a pitch-bend value outside its 14 bits is written as the nearest end of the range, not wrapped -/
def clamp14 (v : Int) : Int := if v < 0 then 0 else if v > 16383 then 16383 else v

/-- `0xS0 + e.channel as u8` (u8 addition, wrapping in release builds) -/
def status (base : Nat) (ch : Int) : Nat := (base + u8 ch) % 256

/-- the clamped tick an event is written at -/
def etime (e : Event) : Int := if e.time < 0 then 0 else e.time

/-- does `generate_track` skip this event entirely (empty SysEx / DirectSMF)? -/
def skipped (e : Event) : Bool :=
  (e.kind == .sysex || e.kind == .directSmf) && e.data.isEmpty

/-- bytes of one event after its delta time -/
def body (e : Event) : List Nat :=
  match e.kind with
  | .noteOn => [status 0x90 e.ch, clamp7 e.v1, clamp7 e.v3]
  | .noteOff => [status 0x80 e.ch, clamp7 e.v1, clamp7 e.v3]
  | .voice => [status 0xC0 e.ch, clamp7 e.v1]
  | .cc => [status 0xB0 e.ch, clamp7 e.v1, clamp7 e.v2]
  | .metaEv => [u8 e.v1, u8 e.v2, u8 e.v3] ++ e.data
  | .sysex =>
      [0xF0] ++ encodeDelta (e.data.length - 1) ++
        (match e.data with
         | 0xF0 :: rest => rest
         | d => d)
  | .pitchBend => [status 0xE0 e.ch, (clamp14 e.v1 % 128).toNat, ((clamp14 e.v1 / 128) % 128).toNat]
  | .pitchBendRange =>
      let r : Nat := if 0 ≤ e.v1 ∧ e.v1 ≤ 24 then e.v1.toNat else 0
      [status 0xB0 e.ch, 0x65, 0, 0, status 0xB0 e.ch, 0x64, 0, 0, status 0xB0 e.ch, 0x06, r]
  | .directSmf => e.data

/-- the event loop of `generate_track` with its running `timepos` -/
def genEvents : Int → List Event → List Nat
  | _, [] => []
  | tp, e :: es =>
    if skipped e then genEvents tp es
    else deltaBytes (etime e - tp) ++ body e ++ genEvents (etime e) es

def eotBytes : List Nat := [0x00, 0xFF, 0x2F, 0x00]

def genTrack (es : List Event) : List Nat := genEvents 0 es ++ eotBytes

/-! ### normalisation (`Track::split_note_off`, `Track::events_sort`) -/

/-- the note-off of a note: at start + gate, and never before the start (a negative gate counts as 0) -/
def noteOffOf (e : Event) : Event := { e with kind := .noteOff, time := e.time + (if e.v2 < 0 then 0 else e.v2) }

def splitNoteOff : List Event → List Event
  | [] => []
  | e :: es => if e.kind = .noteOn then e :: noteOffOf e :: splitNoteOff es else e :: splitNoteOff es

def timeLe (a b : Event) : Bool := decide (a.time ≤ b.time)

/-- `sort_by(|a,b| a.time.cmp(&b.time))` — a stable sort -/
def sortByTime (es : List Event) : List Event := es.mergeSort timeLe

def normalize (es : List Event) : List Event := sortByTime (splitNoteOff es)

/-! ### container (`midi::generate`) -/

def be16 (v : Nat) : List Nat := [(v / 256) % 256, v % 256]
def be32 (v : Nat) : List Nat := [(v / 16777216) % 256, (v / 65536) % 256, (v / 256) % 256, v % 256]

/-- `array_push_u16` / `array_push_u32` on an `isize` (shift and mask, two's complement) -/
def pushU16 (v : Int) : List Nat := [((v / 256) % 256).toNat, (v % 256).toNat]
def pushU32 (v : Int) : List Nat :=
  [((v / 16777216) % 256).toNat, ((v / 65536) % 256).toNat, ((v / 256) % 256).toNat, (v % 256).toNat]

def MThd : List Nat := [77, 84, 104, 100]
def MTrk : List Nat := [77, 84, 114, 107]

def chunk (b : List Nat) : List Nat := MTrk ++ be32 b.length ++ b

/-- header + chunks, given the already generated track bodies -/
def container (timebase : Nat) (bodies : List (List Nat)) : List Nat :=
  MThd ++ be32 6 ++ be16 1 ++ be16 bodies.length ++ be16 timebase ++ (bodies.map chunk).flatten

/-! ### play_from (`Track::play_from`) -/

structure PfAcc where
  out : List Event                 -- reversed
  cc : List ((Nat × Nat) × Int)    -- (channel, controller) → latest value (channels 0..15, controllers 0..127)
  voice : List (Nat × Int)         -- channel → latest program

def setKey {κ : Type} [BEq κ] (l : List (κ × Int)) (k : κ) (v : Int) : List (κ × Int) :=
  (k, v) :: l.filter (fun p => !(p.1 == k))

/-- the scan over the events before the point (taken in time order): meta and SysEx events move to tick 0, the latest controller
    values and programs are remembered per channel, everything else before the point is dropped -/
def pfStep (a : PfAcc) (e : Event) : PfAcc :=
  match e.kind with
  | .metaEv | .sysex => { a with out := { e with time := 0 } :: a.out }
  | .voice => if 0 ≤ e.ch ∧ e.ch < 16 then { a with voice := setKey a.voice e.ch.toNat e.v1 } else a
  | .cc => if 0 ≤ e.v1 ∧ e.v1 < 128 ∧ 0 ≤ e.ch ∧ e.ch < 16 then { a with cc := setKey a.cc (e.ch.toNat, e.v1.toNat) e.v2 } else a
  | _ => a

/-- an event at or after the point: shifted, or dropped when `play_from` does not carry its kind over -/
def pfKeep (p : Int) (e : Event) : Option Event :=
  match e.kind with
  | .metaEv | .sysex | .noteOn | .voice | .cc => some { e with time := e.time - p }
  | _ => none

def ccEvent (ch : Int) (no : Nat) (v : Int) : Event := ⟨.cc, 0, ch, no, v, 0, []⟩
def voiceEvent (ch : Int) (v : Int) : Event := ⟨.voice, 0, ch, v, 0, 0, []⟩

/-- the values re-issued for one channel: its controllers in number order, then its program -/
def restoreCh (a : PfAcc) (ch : Nat) : List Event :=
  (List.range 128).filterMap (fun no =>
    match a.cc.lookup (ch, no) with
    | some v => if v < 0 then none else some (ccEvent ch no v)
    | none => none) ++
  (match a.voice.lookup ch with
   | some v => if v ≥ 0 then [voiceEvent ch v] else []
   | none => [])

def restoreAll (a : PfAcc) : List Event := ((List.range 16).map (restoreCh a)).flatten

/-- the events before the point, in time order (stable: issue order within a tick) -/
def pfBefore (p : Int) (es : List Event) : List Event := sortByTime (es.filter (fun e => decide (e.time < p)))

/-- the scan of `Track::play_from` over the events before the point -/
def pfAcc (p : Int) (es : List Event) : PfAcc := (pfBefore p es).foldl pfStep ⟨[], [], []⟩

/-- `Track::play_from`: the values in force at the point, the meta/SysEx events from before it (at tick 0, in time order), then the
    events at or after the point in the order they were issued -/
def playFrom (p : Int) (es : List Event) : List Event :=
  restoreAll (pfAcc p es) ++ (pfAcc p es).out.reverse ++ (es.filter (fun e => decide (¬ e.time < p))).filterMap (pfKeep p)

/-- the bodies `generate` writes, in track order: play_from (when set), normalise, sort, encode -/
def songBodies (playfrom : Int) (tracks : List (List Event)) : List (List Nat) :=
  (if playfrom < 0 then tracks else tracks.map (playFrom playfrom)).map (fun es => genTrack (normalize es))

/-- header and chunk framing exactly as `midi::generate` writes them (isize shifts and masks) -/
def containerI (timebase : Int) (bodies : List (List Nat)) : List Nat :=
  MThd ++ pushU32 6 ++ pushU16 1 ++ pushU16 bodies.length ++ pushU16 timebase ++
    (bodies.map (fun b => MTrk ++ pushU32 b.length ++ b)).flatten

/-- `midi::generate` on a song given as (timebase, play_from, per-track event lists) -/
def generateSong (timebase : Int) (playfrom : Int) (tracks : List (List Event)) : List Nat :=
  containerI timebase (songBodies playfrom tracks)

end Sakura
