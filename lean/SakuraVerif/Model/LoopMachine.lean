/-! Model of the loop arms (`LoopBegin` / `LoopBreak` / `LoopEnd`) of `runner::exec` as a pc/loop-stack
    machine, parametric in the effect `act` of every other token; and the specification: loop
    trees with structural repetition. -/
namespace Sakura.Loop

inductive Tok (α : Type) where
  | other (a : α) | lbegin (n : Nat) | lbreak | lend

structure Item where
  start : Nat
  endPos : Nat
  index : Nat
  count : Nat

abbrev Cfg (σ : Type) := Nat × List Item × σ

/-- forward scan for the LoopEnd matching an open loop (depth-aware, as in the repaired code). `i` = absolute index of head -/
def scanEnd {α} : List (Tok α) → Nat → Nat → Nat
  | [], _, _ => 0
  | t :: rest, i, d =>
    match t with
    | .lend => if d = 0 then i + 1 else scanEnd rest (i+1) (d-1)
    | .lbegin _ => scanEnd rest (i+1) (d+1)
    | _ => scanEnd rest (i+1) d

def step {α σ} (act : α → σ → σ) (toks : List (Tok α)) : Cfg σ → Option (Cfg σ)
  | (pos, st, s) =>
    match toks[pos]? with
    | none => none
    | some (.other a) => some (pos+1, st, act a s)
    | some (.lbegin n) => some (pos+1, ⟨pos+1, 0, 0, n⟩ :: st, s)
    | some .lbreak =>
      match st with
      | [] => some (pos+1, [], s)
      | it :: st' =>
        if it.count > 0 ∧ it.index = it.count - 1 then
          let e := if it.endPos = 0 then scanEnd (toks.drop pos) pos 0 else it.endPos
          if e > 0 then some (e, st', s) else some (pos+1, st', s)
        else some (pos+1, it :: st', s)
    | some .lend =>
      match st with
      | [] => some (pos+1, [], s)
      | it :: st' =>
        if it.index + 1 < it.count then
          some (it.start, {it with endPos := pos+1, index := it.index+1} :: st', s)
        else some (pos+1, st', s)

def runN {α σ} (act : α → σ → σ) (toks : List (Tok α)) : Nat → Cfg σ → Option (Cfg σ)
  | 0, c => some c
  | k+1, c => match step act toks c with
    | none => none
    | some c' => runN act toks k c'

/-- run until the machine leaves the token list (`some`) or the fuel is used up (`none`): the `while pos < tokens.len()` loop -/
def runFuel {α σ} (act : α → σ → σ) (toks : List (Tok α)) : Nat → Cfg σ → Option σ
  | 0, _ => none
  | f+1, c => match step act toks c with
    | none => some c.2.2
    | some c' => runFuel act toks f c'

def Reach {α σ} (act : α → σ → σ) (toks : List (Tok α)) (c c' : Cfg σ) : Prop :=
  ∃ k, runN act toks k c = some c'

theorem Reach.refl {α σ} {act : α → σ → σ} {toks} (c : Cfg σ) : Reach act toks c c := ⟨0, rfl⟩

theorem runN_add {α σ} {act : α → σ → σ} {toks} (k₁ k₂ : Nat) (c c' : Cfg σ)
    (h : runN act toks k₁ c = some c') : runN act toks (k₁ + k₂) c = runN act toks k₂ c' := by
  induction k₁ generalizing c with
  | zero => simp [runN] at h; subst h; simp
  | succ k ih =>
    rw [Nat.succ_add]
    simp only [runN] at h ⊢
    cases hs : step act toks c with
    | none => simp [hs] at h
    | some c₁ => simp only [hs] at h ⊢; exact ih _ h

theorem Reach.trans {α σ} {act : α → σ → σ} {toks} {a b c : Cfg σ}
    (h₁ : Reach act toks a b) (h₂ : Reach act toks b c) : Reach act toks a c := by
  obtain ⟨k₁, h₁⟩ := h₁; obtain ⟨k₂, h₂⟩ := h₂
  exact ⟨k₁ + k₂, by rw [runN_add _ _ _ _ h₁, h₂]⟩

theorem Reach.one {α σ} {act : α → σ → σ} {toks} {a b : Cfg σ}
    (h : step act toks a = some b) : Reach act toks a b := ⟨1, by simp [runN, h]⟩

-- specification: loop trees
inductive Tree (α : Type) where
  | leaf (a : α)
  | loop (n : Nat) (body : List (Tree α)) (hb : Bool) (brk : List (Tree α))

mutual
def flatten {α} : Tree α → List (Tok α)
  | .leaf a => [.other a]
  | .loop n b hb k => [.lbegin n] ++ (flattenL b ++ ((if hb then [.lbreak] ++ flattenL k else []) ++ [.lend]))
def flattenL {α} : List (Tree α) → List (Tok α)
  | [] => []
  | t :: ts => flatten t ++ flattenL ts
end

/-- `[n a : b]` = (a b)^(n-1) a ; iter counts remaining passes -/
def iter {σ} (fa fb : σ → σ) : Nat → σ → σ
  | 0, s => s
  | 1, s => fa s
  | k+2, s => iter fa fb (k+1) (fb (fa s))

mutual
def run {α σ} (act : α → σ → σ) : Tree α → σ → σ
  | .leaf a, s => act a s
  | .loop n b _ k, s => iter (runL act b) (runL act k) n s
def runL {α σ} (act : α → σ → σ) : List (Tree α) → σ → σ
  | [], s => s
  | t :: ts, s => runL act ts (run act t s)
end

mutual
def wf {α} : Tree α → Bool
  | .leaf _ => true
  | .loop n b hb k => decide (1 ≤ n) && wfL b && wfL k && (hb || k.isEmpty)
def wfL {α} : List (Tree α) → Bool
  | [] => true
  | t :: ts => wf t && wfL ts
end

end Sakura.Loop
