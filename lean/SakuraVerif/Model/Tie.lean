import SakuraVerif.Model.Smf
/-! Model of the four tie/slur flush functions of `runner.rs` (`tie_mode_port`, `tie_mode_bend`,
    `tie_mode_gate`, `tie_mode_alpe`) as pure functions from the tied group (the note events the
    notes would have produced on their own, in order) to the events written to the track.
    Note events are `Event`s of kind `noteOn` with `v1` = key, `v2` = gate length, `v3` = velocity.
    The f32 products of the bend formulas are modelled by exact truncating arithmetic. -/
namespace Sakura.Tie
open Sakura

def noteEnd (e : Event) : Int := e.time + e.v2

/-- `tie_mode_gate`: `last` is the note being extended -/
def gateLoop (tieValue : Int) : Event → List Event → List Event
  | last, [] => [last]
  | last, nx :: rest =>
    if last.v1 = nx.v1 then
      gateLoop tieValue { last with v2 := noteEnd nx - last.time } rest
    else
      { last with v2 := if tieValue = 0 then nx.time - last.time else tieValue } :: gateLoop tieValue nx rest

def tieGate (tieValue : Int) : List Event → List Event
  | [] => []
  | e :: es => gateLoop tieValue e es

/-- `tie_mode_alpe`: every note is held to the end of the last note of the group -/
def tieAlpe (es : List Event) : List Event :=
  match es.getLast? with
  | none => []
  | some l => es.map (fun e => { e with v2 := noteEnd l - e.time })

def bendEvent (time ch v : Int) : Event := ⟨.pitchBend, time, ch, v, 0, 0, []⟩
def bendRangeEvent (time ch v : Int) : Event := ⟨.pitchBendRange, time, ch, v, 0, 0, []⟩

/-- the bend-range event written when the track has none yet: one tick before the first note (not before 0) -/
def ensureRange (bendRange : Int) (first : Event) (ch : Int) : List Event × Int :=
  if bendRange ≤ 0 then ([bendRangeEvent (if first.time ≤ 0 then 0 else first.time - 1) ch 12], 12) else ([], bendRange)

/-- `tie_mode_bend`: one sustained note (the first), a bend at each pitch change, reset at the end.
    Returns the bend events of the loop and the end position. -/
def bendLoop (ch bendRange firstKey : Int) : Int → Int → List Event → List Event × Int
  | _, lastpos, [] => ([], lastpos)
  | prev, _, nx :: rest =>
    if prev = nx.v1 then bendLoop ch bendRange firstKey prev (noteEnd nx) rest
    else
      let b := bendEvent nx.time ch (Int.tdiv ((nx.v1 - firstKey) * 8192) bendRange + 8192)
      let r := bendLoop ch bendRange firstKey nx.v1 (noteEnd nx) rest
      (b :: r.1, r.2)

def tieBend (ch bendRange : Int) : List Event → List Event × Int
  | [] => ([], bendRange)
  | first :: rest =>
    let (pre, br) := ensureRange bendRange first ch
    let (bends, lastpos) := bendLoop ch br first.v1 first.v1 (noteEnd first) rest
    (pre ++ [bendEvent first.time ch 8192] ++ bends ++ [{ first with v2 := lastpos - first.time }] ++ [bendEvent lastpos ch 8192], br)

/-- glide samples of `tie_mode_port` between two notes: `i` from 0 to tieValue-1, a sample is
    written when its value differs from the previous written one (starting from 0) -/
def glide (ch : Int) (bendFrom : Int) (tieValue : Int) (nextTime : Int) : Nat → Int → Int → List Event
  | 0, _, _ => []
  | f+1, i, lastV =>
    if i ≥ tieValue then [] else
    let v := Int.tdiv (bendFrom * i) tieValue
    if lastV = v then glide ch bendFrom tieValue nextTime f (i + 1) lastV
    else bendEvent (nextTime - tieValue + i) ch (v + 8192) :: glide ch bendFrom tieValue nextTime f (i + 1) v

/-- `tie_mode_port`: equal pitches merge; different pitches: glide before the next note, the note is
    gated until the next one starts, bend reset at the next note's start -/
def portLoop (ch tb : Int) : Int → Int → Event → List Event → List Event × Int
  | br, _, last, [] => ([last], br)
  | br, tv, last, nx :: rest =>
    if last.v1 = nx.v1 then
      portLoop ch tb br tv { last with v2 := noteEnd nx - last.time } rest
    else
      let (pre, br') := ensureRange br last ch
      let tv' := if tv = 0 then Int.tdiv (tb * 4) 8 else tv
      let bendFrom := Int.tdiv ((nx.v1 - last.v1) * 8192) br'
      let g := glide ch bendFrom tv' nx.time tv'.toNat 0 0
      let r := portLoop ch tb br' tv' nx rest
      (pre ++ g ++ [{ last with v2 := nx.time - last.time }, bendEvent nx.time ch 8192] ++ r.1, r.2)

def tiePort (ch tb bendRange tieValue : Int) : List Event → List Event × Int
  | [] => ([], bendRange)
  | e :: es => portLoop ch tb bendRange tieValue e es

/-- the flush by mode number (`TieMode::from_i`: 0 Port, 1 Bend, 2 Gate, 3 Alpe, else Port) -/
def flush (mode ch tb bendRange tieValue : Int) (es : List Event) : List Event × Int :=
  if mode = 1 then tieBend ch bendRange es
  else if mode = 2 then (tieGate tieValue es, bendRange)
  else if mode = 3 then (tieAlpe es, bendRange)
  else tiePort ch tb bendRange tieValue es

end Sakura.Tie
