import SakuraVerif.Model.Smf
/-! Model of the message-building arms of `runner::exec` (tempo, time signature, pitch bend, voice,
    meta text cut, RPN/NRPN) and of `Event::sysex` (Roland checksum). -/
namespace Sakura

/-- `runner::value_range` -/
def valueRange (lo v hi : Int) : Int := if v < lo then lo else if v > hi then hi else v

/-- `tempo_change`: `mpq = if tempo > 0 { 60000000 / tempo } else { 120 }`, three bytes by shift/mask -/
def tempoMpq (tempo : Int) : Int := if tempo > 0 then Int.tdiv 60000000 tempo else 120
def tempoData (tempo : Int) : List Nat :=
  [u8 (tempoMpq tempo / 65536 % 256), u8 (tempoMpq tempo / 256 % 256), u8 (tempoMpq tempo % 256)]
def tempoEvent (time tempo : Int) : Event := ⟨.metaEv, time, 0, 0xFF, 0x51, 0x03, tempoData tempo⟩

/-- the `Tempo` arm: clamp 10..300 then `tempo_change` -/
def tempoCmd (time bpm : Int) : Event := tempoEvent time (valueRange 10 bpm 300)

/-- the `TimeSignature` arm: (frac, deno, event) -/
def timeSigDeno (d : Int) : Int :=
  let d := valueRange 2 d 64
  if d = 2 then 2 else if d = 4 then 4 else if d = 8 then 8 else if d = 16 then 16 else 4
def timeSigLog (d : Int) : Int := if d = 2 then 1 else if d = 4 then 2 else if d = 8 then 3 else if d = 16 then 4 else 2
def timeSigEvent (time a b : Int) : Event :=
  ⟨.metaEv, time, 0, 0xFF, 0x58, 0x04, [u8 (valueRange 2 a 64), u8 (timeSigLog (timeSigDeno b)), 0x18, 0x08]⟩

/-- the `PitchBend` arm: `p` (small, value_i = 0) ↦ v*128, `PitchBend` ↦ v+8192 -/
def bendValue (small : Bool) (v : Int) : Int := if small then v * 128 else v + 8192
def bendEvent (time ch : Int) (small : Bool) (v : Int) : Event := ⟨.pitchBend, time, ch, bendValue small v, 0, 0, []⟩

/-- the `MetaText` loop: keep characters while the cumulative UTF-8 length stays below 128 -/
def utf8Len1 (c : Nat) : Nat := if c < 0x80 then 1 else if c < 0x800 then 2 else if c < 0x10000 then 3 else 4
def metaTextCut : Nat → List Nat → List Nat
  | _, [] => []
  | cnt, c :: cs => if cnt + utf8Len1 c < 128 then c :: metaTextCut (cnt + utf8Len1 c) cs else []

/-- `Event::sysex` with checksum markers: -1 starts summing from 0 (every group has its own sum), -2 writes `((128 - (sum & 0x7F)) & 0x7F)` -/
def sysexGo : Bool → Int → List Int → List Nat
  | _, _, [] => []
  | flag, sum, n :: rest =>
    if flag && n = -2 then ((128 - sum % 128) % 128).toNat :: sysexGo false sum rest
    else
      let sum' := if flag then sum + n else sum
      if n = -1 then sysexGo true 0 rest
      else u8 n :: sysexGo flag sum' rest

def sysexData (checksum : Bool) (vals : List Int) : List Nat :=
  if checksum then sysexGo false 0 vals else vals.map u8

/-- `exec_voice` -/
def voiceEvents (time ch : Int) (args : List Int) : List Event :=
  let no := valueRange 1 (args.headD 1) 128 - 1
  match args with
  | [_] => [⟨.voice, time, ch, no, 0, 0, []⟩]
  | _ => [⟨.cc, time, ch, 0, args.getD 1 0, 0, []⟩, ⟨.cc, time, ch, 0x20, args.getD 2 0, 0, []⟩, ⟨.voice, time, ch, no, 0, 0, []⟩]

/-- `exec_cc_rpn_nrpn*`: three controller events (select MSB, select LSB, data entry) -/
def rpnEvents (time ch cc1 cc2 cc3 msb lsb v : Int) : List Event :=
  [⟨.cc, time, ch, cc1, msb, 0, []⟩, ⟨.cc, time, ch, cc2, lsb, 0, []⟩, ⟨.cc, time, ch, cc3, v, 0, []⟩]

end Sakura
