import SakuraVerif.Model.Smf
/-! Model of the reservation machinery of `song.rs` / `runner.rs`: the `calc_*_on_note`
    calculators, `calc_v_on_time`, `write_cc_on_time`, `write_pb_on_time`, `write_cc_on_note`, the
    xorshift generator and `calc_rand_value`, and the part of `exec_note` that consults them, for one
    track of lettered notes.  f32 interpolation is modelled by exact truncating arithmetic (the
    correspondence allows ±1 on interpolated values). -/
namespace Sakura.Reserve
open Sakura

/-- one `x.onNote` / `x.onCycle` reservation -/
structure Slot where
  vals : Option (List Int) := none
  index : Nat := 0
  cycle : Bool := false
deriving Repr, DecidableEq

/-- `calc_v_on_note` and its siblings: (value used, new slot, new "current" track value) -/
def calcOnNote (s : Slot) (cur dflt : Int) : Int × Slot × Int :=
  match s.vals with
  | none => (dflt, s, cur)
  | some ia =>
    if ia.isEmpty then (dflt, s, cur)
    else if s.index ≥ ia.length then
      if s.cycle then
        let v := ia.getD 0 0
        (v, { s with index := 1 }, v)
      else (dflt, { vals := none, index := 0, cycle := s.cycle }, cur)
    else
      let v := ia.getD (s.index % ia.length) 0
      (v, { s with index := s.index + 1 }, v)

/-- xorshift32 (`Song::rand`) -/
def xorshift (y : Nat) : Nat :=
  let y1 := (y ^^^ (y <<< 13)) % 4294967296
  let y2 := y1 ^^^ (y1 >>> 17)
  (y2 ^^^ (y2 <<< 5)) % 4294967296

/-- `calc_rand_value(val, rand_v)` for rand_v > 0: (value, new seed) -/
def calcRand (seed : Nat) (val r : Int) : Int × Nat :=
  let y := xorshift seed
  (val + ((y : Int) % r - Int.tdiv r 2), y)

/-- sample ticks and values of one ramp segment (`write_cc_on_time` inner loop), offset `j` from `start` -/
def rampSeg (start low high len freq lo hi : Int) : Nat → Int → List (Int × Int)
  | 0, _ => []
  | f+1, j =>
    if j ≥ len then [] else
    let rest := rampSeg start low high len freq lo hi f (j + 1)
    if j % freq = 0 then
      let v := Int.tdiv ((high - low) * j) len + low
      (start + j, (if v < lo then lo else if v > hi then hi else v)) :: rest
    else rest

/-- all segments, each starting where the previous one ended -/
def ramp (freq lo hi : Int) : Int → List Int → List (Int × Int)
  | start, low :: high :: len :: rest =>
    rampSeg start low high len (if freq ≤ 0 then 1 else freq) lo hi len.toNat 0 ++ ramp freq lo hi (if len > 0 then start + len else start) rest
  | _, _ => []

/-- `calc_v_on_time`: interpolated velocity at `cur` ticks after the start, `none` when outside every segment -/
def vOnTimeAt (cur : Int) : Int → List Int → Option Int
  | area, low :: high :: len :: rest =>
    match vOnTimeAt cur (area + len) rest with
    | some v => some v        -- a later segment wins (the loop overwrites `result`)
    | none => if area ≤ cur ∧ cur < area + len then some (Int.tdiv ((high - low) * (cur - area)) len + low) else none
  | _, _ => none

def totalLen : List Int → Int
  | _ :: _ :: len :: rest => len + totalLen rest
  | _ => 0

structure CcRes where
  no : Int
  data : List Int
  index : Nat
deriving Repr, DecidableEq

structure Trk where
  tp : Int := 0
  ch : Int := 0
  l : Int := 96
  o : Int := 5
  v : Int := 100
  q : Int := 90
  t : Int := 0
  vS : Slot := {}
  qS : Slot := {}
  tS : Slot := {}
  oS : Slot := {}
  lS : Slot := {}
  vTime : Option (Int × List Int) := none
  vR : Int := 0
  qR : Int := 0
  tR : Int := 0
  oR : Int := 0
  seed : Nat := 3958587042
  freq : Int := 4
  ccNote : List CcRes := []
  ev : List Event := []
deriving Repr

inductive Cmd where
  | note (semi : Int)
  | rest
  | setV (n : Int) | setQ (n : Int) | setT (n : Int) | setO (n : Int) | setL (ticks : Int)
  | onNote (kind : Nat) (vals : List Int) (cycle : Bool)      -- kind 0 v, 1 q, 2 t, 3 o, 4 l
  | random (kind : Nat) (r : Int)                             -- kind 0 v, 1 q, 2 t, 3 o
  | ccOnNote (no : Int) (vals : List Int)
  | ccOnTime (no : Int) (tri : List Int)
  | freq (n : Int)
  | pbOnTime (big : Bool) (tri : List Int)
  | vOnTime (tri : List Int)
  | noteX (semi : Int) (q v tm : Option Int)                   -- a lettered note with its own gate / velocity / timing
  | noteN (no : Int) (q v tm : Option Int)                      -- a numbered note (no octave / length reservations there)

def clampI (lo v hi : Int) : Int := if v < lo then lo else if v > hi then hi else v

/-- `write_cc_on_note`: each reservation writes its next value at the note start, exhausted ones are dropped -/
def ccOnNoteStep (start ch : Int) : List CcRes → List Event × List CcRes
  | [] => ([], [])
  | r :: rest =>
    let (evs, rs) := ccOnNoteStep start ch rest
    if r.index < r.data.length then
      let e : Event := ⟨.cc, start, ch, r.no, r.data.getD r.index 0, 0, []⟩
      let r' := { r with index := r.index + 1 }
      (e :: evs, if r'.index < r'.data.length then r' :: rs else rs)
    else (evs, rs)

/-- the note path of `exec_note` (`lettered = true`) and `exec_note_n` (`false`) with the note's own values `vb qb tb'`
    (already defaulted to the track's): v.onTime, the onNote/onCycle reservations, the Random draws, the event -/
def noteWith (t : Trk) (lettered : Bool) (key0 vb qb tb' : Int) : Trk :=
  let (v0, vTime') := match t.vTime with
    | none => (vb, t.vTime)
    | some (start, tri) =>
      let cur := t.tp - start
      let r := (vOnTimeAt cur 0 tri).getD vb
      (r, if totalLen tri ≤ cur then none else t.vTime)
  let (v1, vS', vcur) := calcOnNote t.vS t.v v0
  let (t1, tS', tcur) := calcOnNote t.tS t.t tb'
  let (q1, qS', qcur) := calcOnNote t.qS t.q qb
  let (oAbs, oS0, ocur) := if lettered then calcOnNote t.oS t.o (-1) else (-1, t.oS, t.o)
  let oS' := if lettered then (match t.oS.vals with | some [] => { t.oS with vals := none } | _ => oS0) else t.oS
  let key1 := if oAbs ≠ -1 then key0 % 12 + oAbs * 12 else key0
  let (key2, s1) := if lettered ∧ t.oR > 0 then (let r := calcRand t.seed 0 t.oR; (if r.1 ≠ 0 then key1 + r.1 * 12 else key1, r.2)) else (key1, t.seed)
  let (v2, s2) := if t.vR > 0 then calcRand s1 v1 t.vR else (v1, s1)
  let (t2, s3) := if t.tR > 0 then calcRand s2 t1 t.tR else (t1, s2)
  let (q2, s4) := if t.qR > 0 then calcRand s3 q1 t.qR else (q1, s3)
  let (lv, lS0, _) := if lettered then calcOnNote t.lS 0 (-1) else (-1, t.lS, 0)
  let lS' := if lettered then (match t.lS.vals with | some [] => { t.lS with vals := none } | _ => lS0) else t.lS
  let len := if lv ≠ -1 then lv else t.l
  let ev : Event := ⟨.noteOn, t.tp + t2, t.ch, key2, Int.tdiv (len * q2) 100, clampI 0 v2 127, []⟩
  let (ccs, ccNote') := if lettered then ccOnNoteStep t.tp t.ch t.ccNote else ([], t.ccNote)
  { t with tp := t.tp + len, v := vcur, q := qcur, t := tcur, o := (if oAbs ≠ -1 then ocur else t.o),
           vS := vS', qS := qS', tS := tS', oS := oS', lS := lS', vTime := vTime', seed := s4,
           ccNote := ccNote', ev := t.ev ++ ccs ++ [ev] }

def step (t : Trk) : Cmd → Trk
  | .noteX semi q v tm =>
    noteWith t true (t.o * 12 + semi) (match v with | some x => if x < 0 then t.v else x | none => t.v)
      (match q with | some x => if x = 0 then t.q else x | none => t.q) (tm.getD t.t)
  | .noteN no q v tm =>
    noteWith t false no (match v with | some x => if x < 0 then t.v else x | none => t.v)
      (match q with | some x => if x = 0 then t.q else x | none => t.q) (tm.getD t.t)
  | .note semi =>
    -- v.onTime
    let (v0, vTime') := match t.vTime with
      | none => (t.v, t.vTime)
      | some (start, tri) =>
        let cur := t.tp - start
        let r := (vOnTimeAt cur 0 tri).getD t.v
        (r, if totalLen tri ≤ cur then none else t.vTime)
    let (v1, vS', vcur) := calcOnNote t.vS t.v v0
    let (t1, tS', tcur) := calcOnNote t.tS t.t t.t
    let (q1, qS', qcur) := calcOnNote t.qS t.q t.q
    let (oAbs, oS0, ocur) := calcOnNote t.oS t.o (-1)
    let oS' := match t.oS.vals with | some [] => { t.oS with vals := none } | _ => oS0
    let key0 := t.o * 12 + semi
    let key1 := if oAbs ≠ -1 then key0 % 12 + oAbs * 12 else key0
    -- Random in the order o, v, t, q (one draw each, only when the width is positive)
    let (key2, s1) := if t.oR > 0 then (let r := calcRand t.seed 0 t.oR; (if r.1 ≠ 0 then key1 + r.1 * 12 else key1, r.2)) else (key1, t.seed)
    let (v2, s2) := if t.vR > 0 then calcRand s1 v1 t.vR else (v1, s1)
    let (t2, s3) := if t.tR > 0 then calcRand s2 t1 t.tR else (t1, s2)
    let (q2, s4) := if t.qR > 0 then calcRand s3 q1 t.qR else (q1, s3)
    let (lv, lS0, _) := calcOnNote t.lS 0 (-1)
    let lS' := match t.lS.vals with | some [] => { t.lS with vals := none } | _ => lS0
    let len := if lv ≠ -1 then lv else t.l
    let ev : Event := ⟨.noteOn, t.tp + t2, t.ch, key2, Int.tdiv (len * q2) 100, clampI 0 v2 127, []⟩
    let (ccs, ccNote') := ccOnNoteStep t.tp t.ch t.ccNote
    { t with tp := t.tp + len, v := vcur, q := qcur, t := tcur, o := (if oAbs ≠ -1 then ocur else t.o),
             vS := vS', qS := qS', tS := tS', oS := oS', lS := lS', vTime := vTime', seed := s4,
             ccNote := ccNote', ev := t.ev ++ ccs ++ [ev] }
  | .rest => { t with tp := t.tp + t.l }
  | .setV n => { t with v := clampI 0 n 127, vS := { t.vS with vals := none }, vTime := none }
  | .setQ n => { t with q := clampI 0 n 100, qS := { t.qS with vals := none } }
  | .setT n => { t with t := n, tS := { t.tS with vals := none } }
  | .setO n => { t with o := clampI 0 n 10, oS := { t.oS with vals := none } }
  | .setL k => { t with l := k, lS := { t.lS with vals := none } }
  | .onNote kind vals cyc =>
    let s : Slot := ⟨some vals, 0, cyc⟩
    match kind with
    | 0 => { t with vS := s, vTime := none } | 1 => { t with qS := s } | 2 => { t with tS := s }
    | 3 => { t with oS := s } | _ => { t with lS := s }
  | .random kind r =>
    match kind with
    | 0 => { t with vR := r } | 1 => { t with qR := r } | 2 => { t with tR := r } | _ => { t with oR := r }
  | .ccOnNote no vals => { t with ccNote := t.ccNote.filter (fun r => r.no != no) ++ [⟨no, vals, 0⟩] }
  | .ccOnTime no tri =>
    { t with ccNote := t.ccNote.filter (fun r => r.no != no),
             ev := t.ev ++ (ramp t.freq 0 127 t.tp tri).map (fun p => (⟨.cc, p.1, t.ch, no, p.2, 0, []⟩ : Event)) }
  | .freq n => { t with freq := n }
  | .pbOnTime big tri =>
    let tri' := scale big tri
    { t with ev := t.ev ++ (ramp 3 0 0x3fff t.tp tri').map (fun p => (⟨.pitchBend, p.1, t.ch, p.2, 0, 0, []⟩ : Event)) }
  | .vOnTime tri => { t with vTime := some (t.tp, tri), vS := { t.vS with vals := none } }
where
  scale (big : Bool) : List Int → List Int
    | low :: high :: len :: rest => (if big then [low + 8192, high + 8192, len] else [low * 128, high * 128, len]) ++ scale big rest
    | _ => []

def run (cs : List Cmd) : Trk := cs.foldl step {}

end Sakura.Reserve
