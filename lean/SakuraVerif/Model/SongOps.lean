import SakuraVerif.Model.Smf
/-! Small song-level operations that the container property depends on
    (`lexer::read_timebase`, `Song::change_cur_track`, `Track::new`'s channel clamp). -/
namespace Sakura

/-- `read_timebase`: `song.timebase = v; if song.timebase <= 48 { song.timebase = 48 }; if song.timebase > 32767 { song.timebase = 32767 }` -/
def readTimebase (v : Int) : Int := if v ≤ 48 then 48 else if v > 32767 then 32767 else v

/-- `Track::new`: channel clamped to 0..15 -/
def trackNewChannel (ch : Int) : Int := if ch < 0 then 0 else if ch > 15 then 15 else ch

/-- `Song::change_cur_track` on the number of tracks: the number is capped at 65534 (the SMF header counts tracks in 16 bits) and
    every missing track up to it is materialised -/
def changeCurTrackNo (no : Nat) : Nat := if no > 65534 then 65534 else no
def changeCurTrackLen (len no : Nat) : Nat := if len ≤ changeCurTrackNo no then changeCurTrackNo no + 1 else len

end Sakura
