/-! Model of `runner::exec_get_time` (TIME / PlayFrom arguments) and of the rest command's pointer step. -/
namespace Sakura.Time

/-- `exec_get_time` with three arguments:
    `mes = m + measure_shift; base = timebase*4/deno; (mes-1)*(base*frac) + (beat-1)*base + tick` -/
def getTime3 (tb frac deno shift m b t : Int) : Int :=
  let mes := m + shift
  let base := Int.tdiv (tb * 4) deno
  (mes - 1) * (base * frac) + (b - 1) * base + t

/-- one argument: the tick itself; none or two arguments: error, 0 -/
def getTime (tb frac deno shift : Int) : List Int → Int
  | [n] => n
  | m :: b :: t :: _ => getTime3 tb frac deno shift m b t
  | _ => 0

end Sakura.Time
