/-! Model of `runner::calc_length` (src/runner.rs) over the text of a length expression
    (`List Nat` of scalar values).  The cursor is the remaining suffix.  f32 arithmetic of the dot
    rules is modelled by exact arithmetic (`dotV`), which coincides with binary32 when
    `|v| * 15 < 2^24` (every value reachable with time bases ≤ 32767 and `%t` below 1.1 million). -/
namespace Sakura.Len

def isDigit (c : Nat) : Bool := 48 ≤ c && c ≤ 57
def cPct := 37
def cMinus := 45
def cDot := 46
def cHat := 94
def cPlus := 43

/-- decimal accumulation of `get_int` -/
def accDigits : Int → List Nat → Int × List Nat
  | acc, [] => (acc, [])
  | acc, c :: cs => if isDigit c then accDigits (acc * 10 + ((c : Int) - 48)) cs else (acc, c :: cs)

/-- `SourceCursor::get_int` on the length alphabet (`$`, `0x`, `0o` cannot occur there) -/
def getInt (dflt : Int) (cs : List Nat) : Int × List Nat :=
  let (flag, cs1) := match cs with
    | c :: r => if c = cMinus then ((-1 : Int), r) else (1, cs)
    | [] => (1, cs)
  match cs1 with
  | c :: _ => if isDigit c then let (n, r) := accDigits 0 cs1; (n * flag, r) else (dflt, cs1)
  | [] => (dflt, cs1)

/-- up to four dots: `eq("....")` / `eq("...")` / `eq("..")` / single -/
def takeDots (cs : List Nat) : Nat × List Nat :=
  match cs with
  | c1 :: r1 => if c1 = 46 then
      match r1 with
      | c2 :: r2 => if c2 = 46 then
          match r2 with
          | c3 :: r3 => if c3 = 46 then
              match r3 with
              | c4 :: r4 => if c4 = 46 then (4, r4) else (3, r3)
              | [] => (3, r3)
            else (2, r2)
          | [] => (2, r2)
        else (1, r1)
      | [] => (1, r1)
    else (0, cs)
  | [] => (0, cs)

/-- value after `k` dots: `v + trunc(v/2 + … + v/2^k)` (exact reading of the f32 expression) -/
def dotV (k : Nat) (v : Int) : Int :=
  match k with
  | 0 => v
  | 1 => v + Int.tdiv v 2
  | 2 => v + Int.tdiv (v * 3) 4
  | 3 => v + Int.tdiv (v * 7) 8
  | _ => v + Int.tdiv (v * 15) 16

def startsNum (cs : List Nat) : Bool :=
  match cs with
  | c :: _ => isDigit c || c = cMinus
  | [] => false

/-- optional `%`: (step mode of this part, rest) -/
def stripPct (cs : List Nat) : Bool × List Nat :=
  match cs with
  | c :: r => if c = cPct then (true, r) else (false, cs)
  | [] => (false, cs)

section
variable (tb dflt : Int)

/-- numeric field of a part: ticks in step mode, otherwise whole note / n (0 = default length) -/
def partNum (step : Bool) (cs : List Nat) : Int × List Nat :=
  if step then getInt 0 cs
  else ((if (getInt 4 cs).1 = 0 then dflt else Int.tdiv (tb * 4) (getInt 4 cs).1), (getInt 4 cs).2)

def partBody (step : Bool) (cs : List Nat) : Int × List Nat :=
  if startsNum cs then
    (dotV (takeDots (partNum tb dflt step cs).2).1 (partNum tb dflt step cs).1,
      (takeDots (partNum tb dflt step cs).2).2)
  else (dflt, cs)

/-- one part after `^`/`+` has been consumed: (value, rest).  `%` is local to the part. -/
def part (cs : List Nat) : Int × List Nat :=
  partBody tb dflt (stripPct cs).1 (stripPct cs).2

/-- the `while` loop over parts: sum of the values of the parts read -/
def loop : Nat → List Nat → Int
  | 0, _ => 0
  | f+1, c :: cs =>
    if c = cHat ∨ c = cPlus then (part tb dflt cs).1 + loop f (part tb dflt cs).2
    else 0
  | _+1, [] => 0

/-- numeric field of the head: ticks in step mode, otherwise whole note / n, 0 when n ≤ 0 -/
def headNum (step : Bool) (cs : List Nat) : Int × List Nat :=
  if startsNum cs then
    (if step then getInt 0 cs
     else ((if (getInt 4 cs).1 > 0 then Int.tdiv (tb * 4) (getInt 4 cs).1 else 0), (getInt 4 cs).2))
  else (dflt, cs)

/-- head of the expression: (value, rest) -/
def head (cs : List Nat) : Int × List Nat :=
  (dotV (takeDots (headNum tb dflt (stripPct cs).1 (stripPct cs).2).2).1 (headNum tb dflt (stripPct cs).1 (stripPct cs).2).1,
   (takeDots (headNum tb dflt (stripPct cs).1 (stripPct cs).2).2).2)

/-- `calc_length(len_str, timebase, def_len)` -/
def calcLength (s : List Nat) : Int :=
  if s = [] then dflt else
  (head tb dflt s).1 + loop tb dflt ((head tb dflt s).2.length + 1) (head tb dflt s).2
end

end Sakura.Len
