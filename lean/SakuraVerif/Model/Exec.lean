import SakuraVerif.Model.Lexer
import SakuraVerif.Model.LoopMachine
import SakuraVerif.Model.Tie
import SakuraVerif.Model.Reserve
import SakuraVerif.Model.Time
import SakuraVerif.Gen.Consts
/-! # Model.Exec — literal model of `runner::exec` for the tokens of the core note language

The loop arms are the pc/loop-stack machine of `Model.LoopMachine` (about which C05 is proved);
every other token is a *leaf* whose action follows the corresponding arm / function of `runner.rs`:
`exec_note` (`get_note_info_from_token`, `set_note_info_with_default_value`, the Random settings,
gate, octave-once, chord collection, tie collection and flush), `exec_note_n`, `exec_rest`,
`exec_harmony`, `exec_div`, `exec_sub` (both run `exec` recursively on their children), the
`Length / Octave / OctaveRel / OctaveOnce / QLen / QLenRel / Velocity / VelocityRel / Timing /
*Random / PlayFromHere / LineNo / Comment` arms, and `Track / Channel / TrackSync` with constant
arguments (`Song::change_cur_track`, `Song::track_sync`).  A token outside this subset sets
`bad`, and the correspondence skips the input.

f32: the gate `(len as f32 * q as f32 / 100.0) as isize` is modelled by exact truncating division
(equal for `len·q < 2^22`). -/
namespace Sakura.Ex2
open Sakura Sakura.Lx

structure Trk where
  timepos : Int := Gen.trackNew_timepos
  channel : Int
  length : Int
  octave : Int := Gen.trackNew_octave
  velocity : Int := Gen.trackNew_velocity
  qlen : Int := Gen.trackNew_qlen
  timing : Int := Gen.trackNew_timing
  trackKey : Int := Gen.trackNew_track_key
  oRand : Int := Gen.trackNew_o_rand
  vRand : Int := Gen.trackNew_v_rand
  tRand : Int := Gen.trackNew_t_rand
  qRand : Int := Gen.trackNew_q_rand
  vSub : List Int := []
  events : List Event := []
  tieNotes : List Event := []
  tieMode : Int := 0
  tieValue : Int := Gen.trackNew_tie_value
  bendRange : Int := Gen.trackNew_bend_range
deriving Repr

def clampI (lo v hi : Int) : Int := if v < lo then lo else if v > hi then hi else v

/-- `Track::new(timebase, channel)` -/
def Trk.new (tb ch : Int) : Trk := { channel := clampI 0 ch 15, length := tb }

structure Song where
  tb : Int := Gen.songNew_timebase
  tracks : List Trk := [Trk.new Gen.songNew_timebase 0]
  cur : Nat := 0
  keyFlag : List Int := List.replicate 12 0
  keyShift : Int := Gen.songNew_key_shift
  useKeyShift : Bool := Gen.songNew_use_key_shift
  vAdd : Int := Gen.songNew_v_add
  qAdd : Int := Gen.songNew_q_add
  harmonyFlag : Bool := Gen.flagsNew_harmony_flag
  harmonyTime : Int := 0
  harmonyEvents : List Event := []
  octaveOnce : Int := Gen.flagsNew_octave_once
  seed : Nat := Gen.songNew_rand_seed.toNat
  playFrom : Int := Gen.songNew_play_from
  lineno : Int := 0
  measureShift : Int := Gen.flagsNew_measure_shift
  timesigFrac : Int := Gen.songNew_timesig_frac
  timesigDeno : Int := Gen.songNew_timesig_deno
  tempo : Int := Gen.songNew_tempo
  bad : Bool := false
deriving Repr

def Song.t (s : Song) : Trk := s.tracks.getD s.cur (Trk.new s.tb ((s.cur : Int) - 1))
def Song.setT (s : Song) (t : Trk) : Song := { s with tracks := s.tracks.set s.cur t }

/-- `Song::change_cur_track`: every track up to `no` comes into existence with its own default channel -/
def growTracks (tb : Int) (no : Nat) : Nat → List Trk → List Trk
  | 0, ts => ts
  | f+1, ts => if ts.length ≤ no then growTracks tb no f (ts ++ [Trk.new tb ((ts.length : Int) - 1)]) else ts

def changeTrack (s : Song) (no : Nat) : Song :=
  { s with cur := no, tracks := growTracks s.tb no (no + 1) s.tracks }

/-- a random draw (`calc_rand_value`) when the width is positive -/
def drawIf (w : Int) (val : Int) (s : Song) : Int × Song :=
  if w > 0 then let r := Reserve.calcRand s.seed val w; (r.1, { s with seed := r.2 }) else (val, s)

def noteEvent (time ch key len vel : Int) : Event := ⟨.noteOn, time, ch, key, len, vel, []⟩

/-- gate: `(notelen as f32 * qlen as f32 / 100.0) as isize` -/
def gate (len q : Int) : Int := Int.tdiv (len * q) 100

def dataI (d : List SV) (i : Nat) : Int := (d.getD i .none).toI
def dataS (d : List SV) (i : Nat) : List Nat := (d.getD i .none).toS

/-- a variable reference `=NAME` in a token argument cannot be resolved in this subset -/
def isVarRef : SV → Bool
  | .str (61 :: _ :: _) => true
  | _ => false

/-- the end of `exec_note`: chord collection, tie collection / flush, or the plain event -/
def emitNote (s : Song) (ev : Event) (slur : Int) : Song :=
  let t := s.t
  if s.harmonyFlag then
    { (s.setT { t with timepos := s.harmonyTime }) with harmonyEvents := s.harmonyEvents ++ [ev] }
  else if slur ≥ 1 then s.setT { t with tieNotes := t.tieNotes ++ [ev] }
  else if t.tieNotes ≠ [] then
    let r := Tie.flush t.tieMode t.channel s.tb t.bendRange t.tieValue (t.tieNotes ++ [ev])
    s.setT { t with events := t.events ++ r.1, tieNotes := [], bendRange := r.2 }
  else s.setT { t with events := t.events ++ [ev] }

/-- the Random settings of `exec_note`, in the order of the code: octave (on the key), velocity, timing, gate -/
def noteDraws (s : Song) (key vel tim qlen : Int) : (Int × Int × Int × Int) × Song :=
  let t := s.t
  let ro := if t.oRand > 0 then (let r := Reserve.calcRand s.seed 0 t.oRand; (key + r.1 * 12, { s with seed := r.2 })) else (key, s)
  let rv := drawIf t.vRand vel ro.2
  let rt := drawIf t.tRand tim rv.2
  let rq := drawIf t.qRand qlen rt.2
  ((ro.1, rv.1, rt.1, rq.1), rq.2)

/-- the pointer advances by the full length; a pending octave-once is taken back -/
def advance (s : Song) (tp : Int) : Song :=
  let s2 := s.setT { s.t with timepos := tp }
  if s2.octaveOnce ≠ 0 then { (s2.setT { s2.t with octave := s2.t.octave - s2.octaveOnce }) with octaveOnce := 0 } else s2

/-- `exec_note` -/
def execNote (s : Song) (tk : Tok) : Song :=
  let d := tk.data
  if d.length < 8 then { s with bad := true } else
  let t := s.t
  let no0 := Int.tmod tk.vi 12
  let qlen := if dataI d 3 = 0 then t.qlen else dataI d 3
  let vel := if dataI d 4 < 0 then t.velocity else dataI d 4
  let tim := if dataI d 5 = intMin then t.timing else dataI d 5
  let oct := if dataI d 6 < 0 then t.octave else dataI d 6
  let key0 := oct * 12 + no0 + dataI d 0
  let key1 := if s.useKeyShift then
      key0 + (if dataI d 1 = 0 then s.keyFlag.getD (Int.toNat no0 % 12) 0 else 0) + s.keyShift + t.trackKey
    else key0
  let r := noteDraws s key1 vel tim qlen
  let notelen := Len.calcLength s.tb t.length (dataS d 2)
  let ev := noteEvent (t.timepos + r.1.2.2.1) t.channel r.1.1 (gate notelen r.1.2.2.2) (clampI 0 r.1.2.1 127)
  emitNote (advance r.2 (t.timepos + notelen)) ev (dataI d 7)

/-- `exec_note_n` (no chord / tie handling there) -/
def execNoteN (s : Song) (tk : Tok) : Song :=
  let d := tk.data
  -- (the length text d[1] comes from get_note_length and cannot be a reference)
  if isVarRef (d.getD 0 .none) || isVarRef (d.getD 2 .none) || isVarRef (d.getD 3 .none) || isVarRef (d.getD 4 .none) then { s with bad := true } else
  let t := s.t
  let notelen := Len.calcLength s.tb t.length (dataS d 1)
  let qlen := if dataI d 2 ≠ 0 then dataI d 2 else t.qlen
  let vel := if dataI d 3 ≥ 0 then dataI d 3 else t.velocity
  let tim := if dataI d 4 ≠ intMin then dataI d 4 else t.timing
  let rv := drawIf t.vRand vel s
  let rt := drawIf t.tRand tim rv.2
  let rq := drawIf t.qRand qlen rt.2
  let s1 := rq.2
  let ev := noteEvent (t.timepos + rt.1) t.channel (dataI d 0 + t.trackKey + s.keyShift) (gate notelen rq.1) (clampI 0 rv.1 127)
  s1.setT { s1.t with events := s1.t.events ++ [ev], timepos := t.timepos + notelen }

/-- `exec_harmony(…, false)`: the collected notes get the chord's tick, length × gate and velocity (last collected first) -/
def execHarmonyEnd (s : Song) (tk : Tok) : Song :=
  if ¬ s.harmonyFlag then s else
  let t := s.t
  let d := tk.data
  let q := if dataI d 1 < 0 then t.qlen else dataI d 1
  let len := Len.calcLength s.tb t.length (dataS d 0)
  let fix (e : Event) : Event :=
    let e := { e with time := s.harmonyTime }
    let e := if q ≠ 0 then { e with v2 := Int.tdiv (len * q) 100 } else e
    match d.getD 2 .none with
    | .none => e
    | v => if v.toI < 0 then e else { e with v3 := v.toI }      -- an empty velocity slot reads as -1: the members keep their own
  { (s.setT { t with events := t.events ++ s.harmonyEvents.reverse.map fix, timepos := s.harmonyTime + len }) with
    harmonyFlag := false, harmonyEvents := [] }

/-- the constant argument of `TR(n)` / `CH(n)`: children = [Tokens [ConstInt n]] -/
def constArg (tk : Tok) : Option Int :=
  match tk.children with
  | some [Tok.mk .tokens _ _ _ _ (some [Tok.mk .constInt n _ _ _ _])] => some n
  | _ => none

/-- constant arguments: every child is `ConstInt n` or `Tokens [ConstInt n]` (what `exec_args` evaluates without variables) -/
def argInts (tk : Tok) : Option (List Int) :=
  match tk.children with
  | none => some []
  | some kids => kids.mapM (fun k => match k with
      | Tok.mk .constInt n _ _ _ _ => some n
      | Tok.mk .tokens _ _ _ _ (some [Tok.mk .constInt n _ _ _ _]) => some n
      | _ => none)

/-- `TieMode::from_i` -/
def tieModeOf (m : Int) : Int := if m = 1 ∨ m = 2 ∨ m = 3 then m else 0

def metaEvent (time ty : Int) (data : List Nat) : Event := ⟨.metaEv, time, 0, 0xFF, ty, data.length, data⟩

/-- `tempo_change` -/
def tempoChange (s : Song) (tempo : Int) : Song :=
  let mpq : Int := if tempo > 0 then Int.tdiv 60000000 tempo else 120
  let t := s.t
  { (s.setT { t with events := t.events ++ [metaEvent t.timepos 0x51 [(mpq / 65536 % 256).toNat, (mpq / 256 % 256).toNat, (mpq % 256).toNat]] }) with tempo := tempo }

def toLoopTok (t : Tok) : Loop.Tok Tok :=
  match t.ty, t.data with
  | .loopBegin, [.int n] => .lbegin n.toNat      -- (a negative count is no count: `Int.toNat` of it is 0)
  | .loopBreak, _ => .lbreak
  | .loopEnd, _ => .lend
  | _, _ => .other t

/-- the action of a non-loop token, with nesting-depth fuel `d` and per-level step fuel `F` -/
def leaf (F : Nat) : Nat → Tok → Song → Song
  | dep, tk, s =>
    if s.bad then s else
    let t := s.t
    match tk.ty with
    | .lineNo => { s with lineno := match tk with | .mk _ _ l _ _ _ => l }
    | .comment => s
    | .timeBase => s      -- set while lexing (the run starts with the song's time base)
    | .note => execNote s tk
    | .noteN => execNoteN s tk
    | .rest => s.setT { t with timepos := t.timepos + Len.calcLength s.tb t.length (dataS tk.data 0) * tk.vi }
    | .length => s.setT { t with length := Len.calcLength s.tb s.tb (dataS tk.data 0) }
    | .octave => s.setT { t with octave := clampI 0 tk.vi 10 }
    | .octaveRel => s.setT { t with octave := clampI 0 (t.octave + tk.vi) 10 }
    | .octaveOnce => { (s.setT { t with octave := clampI 0 (t.octave + tk.vi) 10 }) with octaveOnce := s.octaveOnce + tk.vi }
    | .velocityRel => s.setT { t with velocity := clampI 0 (t.velocity + s.vAdd * tk.vi) 127 }
    | .qlenRel => s.setT { t with qlen := t.qlen + s.qAdd * tk.vi }
    | .qlen => s.setT { t with qlen := clampI 0 tk.vi 100 }
    | .velocity =>
      let ino := dataI tk.data 0
      if ino > 0 then
        let vs := t.vSub ++ List.replicate (ino.toNat + 1 - t.vSub.length) 0
        s.setT { t with vSub := vs.set ino.toNat (clampI 0 tk.vi 127) }
      else s.setT { t with velocity := clampI 0 tk.vi 127 }
    | .timing => s.setT { t with timing := tk.vi }
    | .octaveRandom => if (tk.data.take 1).any isVarRef then { s with bad := true } else s.setT { t with oRand := dataI tk.data 0 }
    | .velocityRandom => if (tk.data.take 1).any isVarRef then { s with bad := true } else s.setT { t with vRand := dataI tk.data 0 }
    | .timingRandom => if (tk.data.take 1).any isVarRef then { s with bad := true } else s.setT { t with tRand := dataI tk.data 0 }
    | .qlenRandom => if (tk.data.take 1).any isVarRef then { s with bad := true } else s.setT { t with qRand := dataI tk.data 0 }
    | .playFromHere => { s with playFrom := t.timepos }
    | .harmonyBegin => { s with harmonyFlag := true, harmonyTime := t.timepos }
    | .harmonyEnd => execHarmonyEnd s tk
    | .track => (match constArg tk with
        | some n => changeTrack s (if n < 0 then 0 else n.toNat)
        | none => { s with bad := true })
    | .channel => (match constArg tk with
        | some n => s.setT { t with channel := clampI 1 n 16 - 1,      -- the bend range is a setting of the channel: on another channel it has to be sent again
                                    bendRange := if t.channel = clampI 1 n 16 - 1 then t.bendRange else 0 }
        | none => { s with bad := true })
    | .trackSync => { s with tracks := s.tracks.map (fun x => { x with timepos := t.timepos }) }
    | .sub =>
      (match dep, tk.children with
       | d+1, some ch =>
         (match Loop.runFuel (leaf F d) (ch.map toLoopTok) F (0, [], s) with
          | some s' => if s'.bad then s' else s'.setT { s'.t with timepos := t.timepos }
          | none => { s with bad := true })
       | _, _ => { s with bad := true })
    | .div =>
      (match dep, tk.children with
       | d+1, some ch =>
         let dl := Len.calcLength s.tb t.length (dataS tk.data 0)
         let nl := if tk.vi > 0 then Int.tdiv dl tk.vi else 0
         (match Loop.runFuel (leaf F d) (ch.map toLoopTok) F (0, [], s.setT { t with length := nl }) with
          | some s' => if s'.bad then s' else s'.setT { s'.t with timepos := t.timepos + dl, length := t.length }
          | none => { s with bad := true })
       | _, _ => { s with bad := true })
    | .keyShift => (match argInts tk with
        | some a => { s with keyShift := a.getLast?.getD 0 }
        | none => { s with bad := true })
    | .trackKey => (match argInts tk with
        | some a => s.setT { t with trackKey := a.getLast?.getD 0 }
        | none => { s with bad := true })
    | .keyFlag => (match tk.data with
        | [.arr a] => { s with keyFlag := a.map SV.toI }
        | _ => { s with bad := true })
    | .useKeyShift => { s with useKeyShift := tk.vi != 0 }
    | .tieMode => (match argInts tk with
        | some [] => s
        | some [m] => s.setT { t with tieMode := tieModeOf m }
        | some (m :: v :: _) => s.setT { t with tieMode := tieModeOf m, tieValue := v }
        | none => { s with bad := true })
    | .songVelocityAdd => (match argInts tk with
        | some a => { s with vAdd := a.getLast?.getD 0 }
        | none => { s with bad := true })
    | .songQAdd => (match argInts tk with
        | some a => { s with qAdd := a.getLast?.getD 0 }
        | none => { s with bad := true })
    | .measureShift => (match argInts tk with
        | some a => { s with measureShift := a.getLast?.getD 0 }
        | none => { s with bad := true })
    | .voice => (match argInts tk with
        | some a =>
          let no := clampI 1 (a.getD 0 1) 128 - 1
          let ev : List Event :=
            if a.length = 1 then [⟨.voice, t.timepos, t.channel, no, 0, 0, []⟩]
            else [⟨.cc, t.timepos, t.channel, 0, a.getD 1 0, 0, []⟩, ⟨.cc, t.timepos, t.channel, 0x20, a.getD 2 0, 0, []⟩, ⟨.voice, t.timepos, t.channel, no, 0, 0, []⟩]
          s.setT { t with events := t.events ++ ev }
        | none => { s with bad := true })
    | .controlChange => (match argInts tk with
        | some a => s.setT { t with events := t.events ++ [⟨.cc, t.timepos, t.channel, tk.vi, a.getLast?.getD 0, 0, []⟩] }
        | none => { s with bad := true })
    | .pitchBend =>
      if (tk.data.take 1).any isVarRef then { s with bad := true } else
      let v := dataI tk.data 0
      s.setT { t with events := t.events ++ [⟨.pitchBend, t.timepos, t.channel, if tk.vi = 0 then v * 128 else v + 8192, 0, 0, []⟩] }
    | .tempo => (match argInts tk with
        | some a => tempoChange s (clampI 10 (a.getLast?.getD 0) 300)
        | none => { s with bad := true })
    | .timeSignature => (match argInts tk with
        | some (a0 :: a1 :: _) =>
          let frac := clampI 2 a0 64
          let d0 := clampI 2 a1 64
          let deno : Int := if d0 = 2 ∨ d0 = 4 ∨ d0 = 8 ∨ d0 = 16 then d0 else 4
          let dv : Nat := if deno = 2 then 1 else if deno = 4 then 2 else if deno = 8 then 3 else if deno = 16 then 4 else 2
          { (s.setT { t with events := t.events ++ [metaEvent t.timepos 0x58 [u8 frac, dv, 0x18, 0x08]] }) with timesigFrac := frac, timesigDeno := deno }
        | some _ => s          -- fewer than two arguments: a runtime error is logged, nothing else happens
        | none => { s with bad := true })
    | .time => (match argInts tk with
        | some a => s.setT { t with timepos := Time.getTime s.tb s.timesigFrac s.timesigDeno s.measureShift a }
        | none => { s with bad := true })
    | .playFrom => (match argInts tk with
        | some a => { s with playFrom := Time.getTime s.tb s.timesigFrac s.timesigDeno s.measureShift a }
        | none => { s with bad := true })
    | .loopBegin => { s with bad := true }      -- a loop count that is negative or a variable reference
    | _ => { s with bad := true }

/-- `runner::exec(song, tokens)` on a fresh song -/
def exec (F D : Nat) (toks : List Tok) (s : Song) : Option Song :=
  Loop.runFuel (leaf F D) (toks.map toLoopTok) F (0, [], s)

end Sakura.Ex2
