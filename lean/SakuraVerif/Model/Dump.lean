import SakuraVerif.Model.Vlq
/-! Model of the reader side of `midi.rs`: `array_readl_delta_time` (index loop over the byte
    vector).  `readDeltaOld` is the reader as it was before the repair (`cv < 0x7F`), kept only for
    the negation witness. -/
namespace Sakura

/-- `array_readl_delta_time`: fuel, pos, accumulated value ↦ (value, new pos) -/
def readDelta (a : List Nat) : Nat → Nat → Nat → Nat × Nat
  | 0, pos, v => (v, pos)
  | f+1, pos, v =>
    match a[pos]? with
    | none => (v, pos)
    | some cv => if cv < 0x80 then (v * 128 + cv, pos + 1) else readDelta a f (pos + 1) (v * 128 + cv % 128)

/-- the unrepaired reader (`cv < 0x7F`) -/
def readDeltaOld (a : List Nat) : Nat → Nat → Nat → Nat × Nat
  | 0, pos, v => (v, pos)
  | f+1, pos, v =>
    match a[pos]? with
    | none => (v, pos)
    | some cv => if cv < 0x7F then (v * 128 + cv, pos + 1) else readDeltaOld a f (pos + 1) (v * 128 + cv % 128)

/-- position shown by the dump: `(measure, beat, tick)` of an absolute time under a signature -/
def dumpPos (tb frac deno time : Nat) : Nat × Nat × Nat :=
  let bb0 := tb * 4 / deno
  let bb := if bb0 = 0 then tb else bb0
  let base := time / bb
  let fr := if frac = 0 then 1 else frac      -- a numerator of 0 counts one beat per measure
  (base / fr + 1, base % fr + 1, time % bb)

end Sakura
