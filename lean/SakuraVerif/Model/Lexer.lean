import SakuraVerif.Model.Length
import SakuraVerif.Model.Sutoton
/-! # Model.Lexer — literal model of `lexer::lex` and `SourceCursor` for the core note language

Text is a `List Nat` of scalar values, the cursor is the remaining suffix plus the line counter.
Modelled literally (function by function): `SourceCursor::{get_token_s, get_token_ch, skip_space,
skip_space_ret, get_note_length, get_word, get_token_nest, get_hex, get_int}`, `read_arg_value`,
`read_note`, `read_note_n`, `read_rest`, `read_length`, `read_octave`, `read_qlen`,
`read_velocity`, `read_timing`, `read_loop`, `read_harmony_flag`, `read_command_div` (with the
recursive `lex` of its block and the element count), `read_command_sub`, the separator / line break
/ comment / one-character arms of the main loop of `lex`, `lex_error` with its cap, and
`normalize_tokens` (by not emitting `Empty` tokens).

Outside the subset (the result is `none`, the correspondence skips the input): upper-case commands
other than `Sub`/`S`/`End`/`END`, `#` macros, `@`, `y`, `p`, `$`, the `.onNote/.onCycle/.onTime`
reservations, and integers beyond the `isize` range (the model uses unbounded integers). -/
namespace Sakura.Lx
open Sakura.Sut (zen2han)

inductive SV where
  | int (i : Int) | str (s : List Nat) | arr (a : List SV) | none
deriving Repr, Inhabited

inductive TT where
  | lineNo | length | note | noteN | rest | octave | octaveRel | octaveOnce | qlen | qlenRel
  | velocity | velocityRel | timing | loopBegin | loopBreak | loopEnd | harmonyBegin | harmonyEnd
  | div | sub | playFromHere | comment | octaveRandom | qlenRandom | velocityRandom | timingRandom
  | track | channel | trackSync | tokens | constInt
  | keyShift | trackKey | keyFlag | useKeyShift | tieMode | songVelocityAdd | songQAdd | measureShift
  | voice | controlChange | pitchBend | tempo | timeSignature | time | playFrom | timeBase | other     -- produced by the real lexer only (upper-case commands); used by Model.Exec
deriving DecidableEq, Repr, Inhabited

inductive Tok where
  | mk (ty : TT) (vi : Int) (line : Int) (vs : Option (List Nat)) (data : List SV) (children : Option (List Tok))
deriving Repr, Inhabited

def Tok.ty : Tok → TT | .mk t _ _ _ _ _ => t
def Tok.vi : Tok → Int | .mk _ v _ _ _ _ => v
def Tok.data : Tok → List SV | .mk _ _ _ _ d _ => d
def Tok.children : Tok → Option (List Tok) | .mk _ _ _ _ _ c => c

/-- `Token::new(ttype, value, data)` -/
def tok (ty : TT) (vi : Int) (data : List SV) : Tok := .mk ty vi 0 none data none

structure Cur where
  s : List Nat
  line : Int
deriving Repr, Inhabited

def isDigit (c : Nat) : Bool := 48 ≤ c && c ≤ 57
def isUpper (c : Nat) : Bool := 65 ≤ c && c ≤ 90
def isLower (c : Nat) : Bool := 97 ≤ c && c ≤ 122
def peek (s : List Nat) : Nat := s.headD 0
def startsWith (p : List Nat) (s : List Nat) : Bool := p.isPrefixOf s

/-- `get_token_s(splitter)`: the text before the splitter; the splitter is consumed; lines are counted -/
def getTokenS (sp : List Nat) : List Nat → Int → List Nat × Cur
  | [], ln => ([], ⟨[], ln⟩)
  | c :: cs, ln =>
    if startsWith sp (c :: cs) then ([], ⟨(c :: cs).drop sp.length, ln⟩)
    else
      let r := getTokenS sp cs (if c = 10 then ln + 1 else ln)
      (c :: r.1, r.2)

/-- `get_token_ch('\n')`: the text before the line break; the line break is consumed and counted -/
def getLine : List Nat → Int → List Nat × Cur
  | [], ln => ([], ⟨[], ln⟩)
  | c :: cs, ln =>
    if c = 10 then ([], ⟨cs, ln + 1⟩)
    else let r := getLine cs ln; (c :: r.1, r.2)

/-- `skip_space`: blanks, tabs and range comments -/
def skipSpace : Nat → List Nat → Int → Cur
  | 0, s, ln => ⟨s, ln⟩
  | _, [], ln => ⟨[], ln⟩
  | f+1, c :: cs, ln =>
    if c = 32 ∨ c = 9 then skipSpace f cs ln
    else if c = 47 ∧ peek cs = 42 then
      let r := (getTokenS [42, 47] (c :: cs) ln).2
      skipSpace f r.s r.line
    else ⟨c :: cs, ln⟩

def Cur.skipSpace (c : Cur) : Cur := Lx.skipSpace (c.s.length + 1) c.s c.line

/-- `skip_space_ret`: also line breaks (counted) and line comments -/
def skipSpaceRet : Nat → List Nat → Int → Cur
  | 0, s, ln => ⟨s, ln⟩
  | _, [], ln => ⟨[], ln⟩
  | f+1, c :: cs, ln =>
    if c = 13 ∨ c = 10 ∨ c = 9 ∨ c = 32 then skipSpaceRet f cs (if c = 10 then ln + 1 else ln)
    else if c = 47 ∧ peek cs = 47 then
      let r := (getLine (c :: cs) ln).2
      skipSpaceRet f r.s r.line
    else if c = 47 ∧ peek cs = 42 then
      let r := (getTokenS [42, 47] (c :: cs) ln).2
      skipSpaceRet f r.s r.line
    else ⟨c :: cs, ln⟩

def isLenChar (c : Nat) : Bool := isDigit c || c = 46 || c = 94 || c = 37 || c = 45 || c = 43

/-- `get_note_length`: the characters of a length expression; blanks and bar lines inside are skipped;
    a line break continues the expression only when a `^` follows (after blanks, line breaks, comments) -/
def getNoteLength : Nat → List Nat → Int → List Nat × Cur
  | 0, s, ln => ([], ⟨s, ln⟩)
  | _, [], ln => ([], ⟨[], ln⟩)
  | f+1, c :: cs, ln =>
    if isLenChar c then let r := getNoteLength f cs ln; (c :: r.1, r.2)
    else if c = 32 ∨ c = 124 ∨ c = 9 then getNoteLength f cs ln
    else if c = 10 then
      let r := skipSpaceRet (cs.length + 1) cs (ln + 1)
      if peek r.s = 94 ∧ r.s ≠ [] then getNoteLength f r.s r.line else ([], ⟨c :: cs, ln⟩)
    else ([], ⟨c :: cs, ln⟩)

def Cur.noteLength (c : Cur) : List Nat × Cur := getNoteLength (c.s.length + 1) c.s c.line

def isWordChar (c : Nat) : Bool := isUpper c || isLower c || c = 95 || isDigit c

def takeWord : List Nat → List Nat × List Nat
  | [] => ([], [])
  | c :: cs => if isWordChar c then let r := takeWord cs; (c :: r.1, r.2) else ([], c :: cs)

/-- `get_word` -/
def getWord (s : List Nat) : List Nat × List Nat :=
  match s with
  | 35 :: cs => let r := takeWord cs; (35 :: r.1, r.2)
  | _ => takeWord s

/-- the loop of `get_token_nest` -/
def nestGo (o cl : Nat) : Nat → List Nat → Int → List Nat × Cur
  | _, [], ln => ([], ⟨[], ln⟩)
  | level, c :: cs, ln =>
    let ln' := if c = 10 then ln + 1 else ln
    if c = o then let r := nestGo o cl (level + 1) cs ln'; (c :: r.1, r.2)
    else if c = cl then
      if level - 1 = 0 then ([], ⟨cs, ln'⟩)
      else let r := nestGo o cl (level - 1) cs ln'; (c :: r.1, r.2)
    else let r := nestGo o cl level cs ln'; (c :: r.1, r.2)

/-- `get_token_nest(open, close)` -/
def getTokenNest (o cl : Nat) (s : List Nat) (ln : Int) : List Nat × Cur :=
  match s with
  | c :: cs => if c = o then nestGo o cl 1 cs ln else nestGo o cl 0 (c :: cs) ln
  | [] => ([], ⟨[], ln⟩)

def hexVal (c : Nat) : Option Int :=
  if isDigit c then some ((c : Int) - 48)
  else if 97 ≤ c ∧ c ≤ 102 then some ((c : Int) - 97 + 10)
  else if 65 ≤ c ∧ c ≤ 70 then some ((c : Int) - 65 + 10)
  else none

def accHex : Int → List Nat → Int × List Nat
  | acc, [] => (acc, [])
  | acc, c :: cs => match hexVal c with
    | some d => accHex (acc * 16 + d) cs
    | none => (acc, c :: cs)

/-- an optional leading `-`: (sign, rest) -/
def stripMinus : List Nat → Int × List Nat
  | 45 :: r => (-1, r)
  | s => (1, s)

/-- `get_hex(def, check_flag = true)` -/
def getHex (dflt : Int) (s : List Nat) : Int × List Nat :=
  let m := stripMinus s
  let s2 := match m.2 with
    | 36 :: r => r
    | _ => m.2
  let s3 := match s2 with
    | 48 :: 120 :: r => r
    | _ => s2
  match hexVal (peek s3) with
  | none => (dflt, s3)
  | some _ => let r := accHex 0 s3; (r.1 * m.1, r.2)

def accDec : Int → List Nat → Int × List Nat
  | acc, [] => (acc, [])
  | acc, c :: cs => if isDigit c then accDec (acc * 10 + ((c : Int) - 48)) cs else (acc, c :: cs)

def isOct8 (c : Nat) : Bool := 48 ≤ c && c ≤ 56
def accOct : Int → List Nat → Int × List Nat
  | acc, [] => (acc, [])
  | acc, c :: cs => if isOct8 c then accOct (acc * 8 + ((c : Int) - 48)) cs else (acc, c :: cs)

/-- `get_int(def)`: decimal, `$`/`0x` hexadecimal, `0o` octal (the digit 8 is accepted there, as in the code);
    without a digit the default is returned and an already consumed `-` stays consumed -/
def getIntBody (dflt : Int) (m : Int × List Nat) : Int × List Nat :=
  if startsWith [48, 120] m.2 ∨ peek m.2 = 36 ∧ m.2 ≠ [] then
    let r := getHex dflt m.2; (m.1 * r.1, r.2)
  else if startsWith [48, 111] m.2 then
    let s2 := m.2.drop 2
    if isOct8 (peek s2) ∧ s2 ≠ [] then let r := accOct 0 s2; (r.1 * m.1, r.2) else (dflt, s2)
  else if isDigit (peek m.2) ∧ m.2 ≠ [] then let r := accDec 0 m.2; (r.1 * m.1, r.2)
  else (dflt, m.2)

def getInt (dflt : Int) (s : List Nat) : Int × List Nat := getIntBody dflt (stripMinus s)

/-- `str::parse::<isize>()` or 0 -/
def parseIntOr0 (s : List Nat) : Int :=
  let (flag, d) := match s with
    | 45 :: r => ((-1 : Int), r)
    | 43 :: r => (1, r)
    | _ => (1, s)
  if d ≠ [] ∧ d.all isDigit then flag * (accDec 0 d).1 else 0

def SV.toI : SV → Int
  | .int i => i
  | .str s => parseIntOr0 s
  | _ => 0

def SV.toS : SV → List Nat
  | .str s => s
  | _ => []

mutual
/-- `read_arg_value` -/
def readArgValue (tb : Int) : Nat → Cur → SV × Cur
  | 0, c => (.none, c)
  | f+1, c0 =>
    let c := c0.skipSpace
    match c.s with
    | [] => (.none, c)
    | ch :: cs =>
      if isUpper ch ∨ ch = 95 then let r := getWord c.s; (.str (61 :: r.1), ⟨r.2, c.line⟩)
      else if ch = 33 then
        let r := (Cur.mk cs c.line).noteLength
        (.int (Len.calcLength tb tb r.1), r.2)
      else if ch = 45 ∨ isDigit ch ∨ ch = 36 then let r := getInt 0 c.s; (.int r.1, ⟨r.2, c.line⟩)
      else if ch = 61 then readArgValue tb f ⟨cs, c.line⟩
      else if ch = 40 then
        let r := readArgList tb f ⟨cs, c.line⟩
        let c2 : Cur := if peek r.2.s = 41 ∧ r.2.s ≠ [] then ⟨r.2.s.drop 1, r.2.line⟩ else r.2
        match r.1 with
        | [v] => (match v with
            | .str (61 :: w) => (.str (61 :: w), c2)
            | v => (.int v.toI, c2))
        | vs => (.arr vs, c2)
      else if ch = 123 then let r := getTokenNest 123 125 c.s c.line; (.str r.1, r.2)
      else (.none, c)
/-- the comma-separated values inside `( … )` -/
def readArgList (tb : Int) : Nat → Cur → List SV × Cur
  | 0, c => ([], c)
  | f+1, c =>
    let r := readArgValue tb f c
    let c1 := r.2.skipSpace
    if peek c1.s = 44 ∧ c1.s ≠ [] then
      let r2 := readArgList tb f ⟨c1.s.drop 1, c1.line⟩
      (r.1 :: r2.1, r2.2)
    else ([r.1], c1)
end

def Cur.argValue (tb : Int) (c : Cur) : SV × Cur := readArgValue tb (c.s.length + 2) c

/-- value after an optional `,`: `if !eq_char(',') { dflt } else { next; skip_space; [skip '+']; get_int(dflt) }` -/
def commaInt (dflt : Int) (skipPlus : Bool) (c : Cur) : Int × Cur :=
  match c.s with
  | 44 :: r =>
    let c1 := (Cur.mk r c.line).skipSpace
    let s2 := if skipPlus ∧ peek c1.s = 43 ∧ c1.s ≠ [] then c1.s.drop 1 else c1.s
    let g := getInt dflt s2
    (g.1, ⟨g.2, c1.line⟩)
  | _ => (dflt, c)

def intMin : Int := -9223372036854775808

/-- accidentals in front of the length: (flag, natural, rest) -/
def noteFlags : List Nat → Int → Bool → Int × Bool × List Nat
  | [], fl, nat => (fl, nat, [])
  | c :: cs, fl, nat =>
    if c = 43 ∨ c = 35 then noteFlags cs (fl + 1) nat
    else if c = 45 then noteFlags cs (fl - 1) nat
    else if c = 42 then noteFlags cs fl true
    else (fl, nat, c :: cs)

/-- `&` suffix of a lettered note: `&`, `&n`, `&$h` -/
def slurSuffix (c : Cur) : SV × Cur :=
  match c.s with
  | 38 :: r =>
    let c1 := (Cur.mk r c.line).skipSpace
    if (peek c1.s = 36 ∨ isDigit (peek c1.s)) ∧ c1.s ≠ [] then
      let g := getInt 0 c1.s; (.int g.1, ⟨g.2, c1.line⟩)
    else (.int 1, c1)
  | _ => (.none, c)

def semiOf (ch : Nat) : Int :=
  if ch = 99 then 0 else if ch = 100 then 2 else if ch = 101 then 4 else if ch = 102 then 5
  else if ch = 103 then 7 else if ch = 97 then 9 else if ch = 98 then 11 else 0

/-- `read_note(cur, ch)`; `c` is the cursor after the letter -/
def readNote (ch : Nat) (c : Cur) : Tok × Cur :=
  let fl := noteFlags c.s 0 false
  let ln := (Cur.mk fl.2.2 c.line).noteLength
  let c1 := ln.2.skipSpace
  let q := commaInt 0 false c1
  let c2 := q.2.skipSpace
  let v := commaInt (-1) true c2
  let c3 := v.2.skipSpace
  let t := commaInt intMin false c3
  let o := commaInt (-1) false t.2
  let sl := slurSuffix o.2
  (tok .note (semiOf ch) [.int fl.1, .int (if fl.2.1 then 1 else 0), .str ln.1, .int q.1, .int v.1, .int t.1, .int o.1, sl.1], sl.2)

/-- `read_note_n` -/
def readNoteN (tb : Int) (c : Cur) : Tok × Cur :=
  let no := c.argValue tb
  let c1 := no.2.skipSpace
  let c1' : Cur := match c1.s with
    | 44 :: r => ⟨r, c1.line⟩
    | _ => c1
  let ln := c1'.noteLength
  let c2 := ln.2.skipSpace
  let q := commaInt 0 false c2
  let c3 := q.2.skipSpace
  let v := commaInt (-1) true c3
  let c4 := v.2.skipSpace
  let t := commaInt intMin true c4
  let sl : SV × Cur := match t.2.s with
    | 38 :: r => (.int 1, (Cur.mk r t.2.line).skipSpace)
    | _ => (.none, t.2)
  (tok .noteN 0 [no.1, .str ln.1, .int q.1, .int v.1, .int t.1, sl.1], sl.2)

/-- an optional leading `*` -/
def stripStar : List Nat → List Nat
  | 42 :: r => r
  | s => s

/-- `read_rest` -/
def readRest (c : Cur) : Tok × Cur :=
  let m := stripMinus (stripStar c.s)
  let ln := (Cur.mk m.2 c.line).noteLength
  (tok .rest m.1 [.str ln.1], ln.2.skipSpace)

/-- the words after `.` that select a reservation; only `Random` is inside the modelled subset -/
def isReserveWord (w : List Nat) : Bool :=
  w = [111, 110, 84, 105, 109, 101] || w = [84] || w = [111, 110, 78, 111, 116, 101] || w = [78] ||
  w = [111, 110, 67, 121, 99, 108, 101] || w = [67]
def wRandom : List Nat := [82, 97, 110, 100, 111, 109]

/-- `read_length` -/
def readLength (c : Cur) : Option (Tok × Cur) :=
  match c.s with
  | 46 :: r =>
    let w := (getWord r).1
    if w = wRandom ∨ isReserveWord w then none
    else let ln := c.noteLength; some (tok .length 0 [.str ln.1], ln.2)
  | _ => let ln := c.noteLength; some (tok .length 0 [.str ln.1], ln.2)

/-- common tail of `read_octave` / `read_qlen` / `read_velocity` / `read_timing`: `.Random`, a reservation (outside
    the subset), or a plain value -/
def readDotOrValue (tb : Int) (rnd plain : TT) (data : List SV) (c : Cur) : Option (Tok × Cur) :=
  match c.s with
  | 46 :: r =>
    let w := getWord r
    if w.1 = wRandom then
      let a := (Cur.mk w.2 c.line).argValue tb
      some (tok rnd 0 [a.1], a.2)
    else if isReserveWord w.1 then none
    else
      let a := (Cur.mk w.2 c.line).argValue tb
      some (tok plain a.1.toI data, a.2)
  | _ =>
    let a := c.argValue tb
    some (tok plain a.1.toI data, a.2)

def readOctave (tb : Int) (c : Cur) : Option (Tok × Cur) := readDotOrValue tb .octaveRandom .octave [] c

/-- `read_qlen` -/
def readQlen (tb : Int) (c : Cur) : Option (Tok × Cur) :=
  match c.s with
  | 43 :: 43 :: r => some (tok .qlenRel 1 [], ⟨r, c.line⟩)
  | 45 :: 45 :: r => some (tok .qlenRel (-1) [], ⟨r, c.line⟩)
  | 95 :: 95 :: r => readDotOrValue tb .qlenRandom .qlen [] ⟨(getInt 0 r).2, c.line⟩
  | 95 :: r => readDotOrValue tb .qlenRandom .qlen [] ⟨(getInt 0 r).2, c.line⟩
  | _ => readDotOrValue tb .qlenRandom .qlen [] c

/-- `read_velocity` -/
def readVelocity (tb : Int) (c : Cur) : Option (Tok × Cur) :=
  match c.s with
  | 43 :: 43 :: r => some (tok .velocityRel 1 [], ⟨r, c.line⟩)
  | 45 :: 45 :: r => some (tok .velocityRel (-1) [], ⟨r, c.line⟩)
  | 95 :: 95 :: r => let g := getInt 0 r; readDotOrValue tb .velocityRandom .velocity [.int g.1] ⟨g.2, c.line⟩
  | 95 :: r => readDotOrValue tb .velocityRandom .velocity [.int 0] ⟨(getInt 0 r).2, c.line⟩
  | _ => readDotOrValue tb .velocityRandom .velocity [.int (-1)] c

/-- `read_timing` -/
def readTiming (tb : Int) (c : Cur) : Option (Tok × Cur) :=
  match c.s with
  | 95 :: 95 :: r => readDotOrValue tb .timingRandom .timing [] ⟨(getInt 0 r).2, c.line⟩
  | 95 :: r => readDotOrValue tb .timingRandom .timing [] ⟨r, c.line⟩
  | _ => readDotOrValue tb .timingRandom .timing [] c

/-- `read_loop` -/
def readLoop (tb : Int) (c0 : Cur) : Tok × Cur :=
  let c := c0.skipSpace
  if (isDigit (peek c.s) ∨ peek c.s = 61 ∨ peek c.s = 40) ∧ c.s ≠ [] then
    let a := c.argValue tb; (tok .loopBegin 0 [a.1], a.2)
  else (tok .loopBegin 0 [.int 2], c)

/-- the optional length after the closing `'` of a chord -/
def harmLen (c : Cur) : SV × Cur :=
  if (isDigit (peek c.s) ∨ peek c.s = 94) ∧ c.s ≠ [] then let r := c.noteLength; (.str r.1, r.2) else (.none, c)

/-- `,gate` and `,velocity` after the chord's length -/
def harmArgs (lnv : SV) (c1 : Cur) : Tok × Cur :=
  match c1.s with
  | 44 :: r =>
    let q := getInt (-1) r
    (match q.2 with
     | 44 :: r2 => let v := getInt (-1) r2; (tok .harmonyEnd 0 [lnv, .int q.1, .int v.1], ⟨v.2, c1.line⟩)
     | _ => (tok .harmonyEnd 0 [lnv, .int q.1, .none], ⟨q.2, c1.line⟩))
  | _ => (tok .harmonyEnd 0 [lnv, .int (-1), .none], c1)

/-- the closing `'` of a chord: optional length, `,gate`, `,velocity` -/
def readHarmonyEnd (c : Cur) : Tok × Cur :=
  let ln := harmLen c
  harmArgs ln.1 ln.2.skipSpace

def countChar (s : List Nat) (c : Nat) : Int := (s.filter (· = c)).length

/-- the element count of a tuplet, taken over the top-level tokens of its block: notes, rests, nested tuplets and
    their `^` parts, multiplied by the repetitions of the loops around them -/
def countDiv : List Tok → Int → List (Int × Int) → Int → Int
  | [], _, _, cnt => cnt
  | t :: ts, mult, loops, cnt =>
    match t.ty with
    | .loopBegin =>
      let n : Int := match t.data with
        | .int n :: _ => if n < 0 then 0 else n
        | _ => 1
      countDiv ts (mult * n) ((mult, n) :: loops) cnt
    | .loopBreak =>
      (match loops with
       | (outer, n) :: _ => countDiv ts (outer * (if n > 0 then n - 1 else 0)) loops cnt
       | [] => countDiv ts mult loops cnt)
    | .loopEnd =>
      (match loops with
       | (outer, _) :: rest => countDiv ts outer rest cnt
       | [] => countDiv ts mult loops cnt)
    | .note => countDiv ts mult loops (cnt + mult * (1 + countChar ((t.data.getD 2 .none).toS) 94))
    | .noteN => countDiv ts mult loops (cnt + mult * (1 + countChar ((t.data.getD 1 .none).toS) 94))
    | .div => countDiv ts mult loops (cnt + mult * (1 + countChar ((t.data.getD 0 .none).toS) 94))
    | .rest => countDiv ts mult loops (cnt + mult * (1 + countChar ((t.data.getD 0 .none).toS) 94))
    | _ => countDiv ts mult loops cnt

structure Err where
  line : Int
  msg : List Nat
  near : List Nat
deriving Repr, Inhabited

structure Out where
  toks : List Tok
  errs : List Err
deriving Repr, Inhabited

def wSub : List Nat := [83, 117, 98]
def wEnd1 : List Nat := [69, 110, 100]
def wEnd2 : List Nat := [69, 78, 68]
def msgSlash : List Nat := "Could not parse flag '/'".toList.map Char.toNat

/-- main loop of `lex`; `harm` is the chord flag.  `none` = outside the modelled subset. -/
def lexLoop (tb : Int) : Nat → List Nat → Int → Bool → Option Out
  | 0, _, _, _ => none
  | _, [], _, _ => some ⟨[], []⟩
  | f+1, c :: cs, ln, harm =>
    let ch := zen2han c
    let cur : Cur := ⟨cs, ln⟩
    let cons (r : Tok × Cur) (h : Bool) : Option Out :=
      match lexLoop tb f r.2.s r.2.line h with
      | some o => some ⟨r.1 :: o.toks, o.errs⟩
      | none => none
    let consO (r : Option (Tok × Cur)) : Option Out :=
      match r with
      | some r => cons r harm
      | none => none
    let one (t : Tok) : Option Out := cons (t, cur) harm
    if ch = 32 ∨ ch = 9 ∨ ch = 13 ∨ ch = 124 ∨ ch = 59 then lexLoop tb f cs ln harm
    else if ch = 10 then cons (.mk .lineNo 0 (ln + 1) none [] none, ⟨cs, ln + 1⟩) harm
    else if ch = 99 ∨ ch = 100 ∨ ch = 101 ∨ ch = 102 ∨ ch = 103 ∨ ch = 97 ∨ ch = 98 then cons (readNote ch cur) harm
    else if ch = 110 then cons (readNoteN tb cur) harm
    else if ch = 114 then cons (readRest cur) harm
    else if ch = 108 then consO (readLength cur)
    else if ch = 111 then consO (readOctave tb cur)
    else if ch = 113 then consO (readQlen tb cur)
    else if ch = 118 then consO (readVelocity tb cur)
    else if ch = 116 then consO (readTiming tb cur)
    else if isUpper ch ∨ ch = 95 then
      -- `cur.prev(); cur.replace_char(ch)`: a full-width letter is read as its half-width form
      if (startsWith wEnd1 (ch :: cs) ∨ startsWith wEnd2 (ch :: cs)) ∧ isWordChar (peek ((ch :: cs).drop 3)) = false then some ⟨[], []⟩
      else
        let w := getWord (ch :: cs)
        if w.1 = wSub ∨ w.1 = [83] then
          let c1 := (Cur.mk w.2 ln).skipSpace
          let blk := getTokenNest 123 125 c1.s c1.line
          -- the nested call starts at the line the block's text starts on
          match lexLoop tb f blk.1 c1.line false, lexLoop tb f blk.2.s blk.2.line harm with
          | some inner, some o =>
            some ⟨.mk .sub 0 0 none [] (some (.mk .lineNo 0 c1.line none [] none :: inner.toks)) :: o.toks, inner.errs ++ o.errs⟩
          | _, _ => none
        else none
    else if ch = 35 then
      -- (`cur.replace_char(ch)`: a full-width `＃` is read as `#`)
      (match ch :: cs with
       | 35 :: 35 :: _ => let r := (getLine (ch :: cs) ln).2; lexLoop tb f r.s r.line harm
       | 35 :: 32 :: _ => let r := (getLine (ch :: cs) ln).2; lexLoop tb f r.s r.line harm
       | 35 :: 45 :: _ => let r := (getLine (ch :: cs) ln).2; lexLoop tb f r.s r.line harm
       | _ => none)
    else if ch = 62 then one (tok .octaveRel 1 [])
    else if ch = 60 then one (tok .octaveRel (-1) [])
    else if ch = 41 then one (tok .velocityRel 1 [])
    else if ch = 40 then one (tok .velocityRel (-1) [])
    else if ch = 47 then
      (match c :: cs with
       | 47 :: 47 :: 47 :: _ =>
         let r := getLine (c :: cs) ln
         cons (.mk .comment 0 r.2.line (some r.1) [] none, r.2) harm
       | 47 :: 47 :: _ => let r := (getLine (c :: cs) ln).2; lexLoop tb f r.s r.line harm
       | 47 :: 42 :: 42 :: _ =>
         let r := getTokenS [42, 47] (c :: cs) ln
         cons (.mk .comment 0 r.2.line (some r.1) [] none, r.2) harm
       | 47 :: 42 :: _ => let r := (getTokenS [42, 47] (c :: cs) ln).2; lexLoop tb f r.s r.line harm
       | _ =>
         match lexLoop tb f cs ln harm with
         | some o => some ⟨o.toks, ⟨ln, msgSlash, cs.take 8⟩ :: o.errs⟩
         | none => none)
    else if ch = 91 then cons (readLoop tb cur) harm
    else if ch = 58 then one (tok .loopBreak 0 [])
    else if ch = 93 then one (tok .loopEnd 0 [])
    else if ch = 39 then
      if harm then cons (readHarmonyEnd cur) false else cons (tok .harmonyBegin 0 [], cur) true
    else if ch = 123 then
      -- `cur.prev(); cur.replace_char('{')`: a full-width brace is read as the half-width one
      let blk := getTokenNest 123 125 (123 :: cs) ln
      let lens := blk.2.noteLength
      match lexLoop tb f blk.1 ln false, lexLoop tb f lens.2.s lens.2.line harm with
      | some inner, some o =>
        let kids := Tok.mk .lineNo 0 ln none [] none :: inner.toks
        some ⟨.mk .div (countDiv kids 1 [] 0) 0 none [.str lens.1] (some kids) :: o.toks, inner.errs ++ o.errs⟩
      | _, _ => none
    else if ch = 96 then one (tok .octaveOnce 1 [])
    else if ch = 34 then one (tok .octaveOnce (-1) [])
    else if ch = 63 then one (tok .playFromHere 0 [])
    else if ch = 64 ∨ ch = 121 ∨ ch = 112 ∨ ch = 36 ∨ ch = 38 then none
    else
      match lexLoop tb f cs ln harm with
      | some o => some ⟨o.toks, ⟨ln, [ch], cs.take 8⟩ :: o.errs⟩
      | none => none

/-- `lex(song, src, lineno)` of a fresh song (time base 96): the initial `LineNo` token, then the loop -/
def lex (tb : Int) (src : List Nat) (lineno : Int) : Option Out :=
  match lexLoop tb (src.length + 1) src lineno false with
  | some o => some ⟨.mk .lineNo 0 lineno none [] none :: o.toks, o.errs⟩
  | none => none

end Sakura.Lx
