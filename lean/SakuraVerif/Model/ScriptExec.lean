import SakuraVerif.Model.Expr
/-! # Literal model of the script layer of `runner::exec`

The arms of `exec` that run scripts, over the tokens the lexer produces for them: `LineNo`, `DefInt`/`DefStr`, `LetVar`,
`ValueInc`, `GetVariable`, `ConstInt`/`ConstStr`, `CalcTree`, `Tokens`, `Print`, `If`, `For`, `While`, `Break`, `Continue`,
`Return`, `CallUserFunction` and `NoteN` (as the note number it sounds), with the state they act on: the stack of variable
scopes (`variables_stack`), the value stack (`song.stack`), `break_flag`, `function_needs_return_value`, the log.  The helper
functions `exec_args` / `exec_value` are modelled as written (they save, set and restore the flag and pop one value per
argument).  Tied to the code by the stream `scriptexec` on the real token lists and function tables. -/
namespace Sakura.Sx
open Sakura.Ex (Val)

inductive TT where
  | lineNo | defInt | defStr | letVar | valueInc | getVariable | constInt | constStr | calcTree | tokens | print
  | if_ | for_ | while_ | break_ | continue_ | return_ | callUser | noteN | other
deriving DecidableEq, Repr, Inhabited

/-- data items of a token as far as the script arms read them -/
inductive Dat where
  | int (i : Int) | str (s : List Nat) | other
deriving DecidableEq, Repr, Inhabited

inductive Tok where
  | mk (ty : TT) (vi tag line : Int) (vs : Option (List Nat)) (data : List Dat) (ch : Option (List Tok))
deriving Repr, Inhabited

def Tok.ty : Tok → TT | .mk t _ _ _ _ _ _ => t
def Tok.vi : Tok → Int | .mk _ v _ _ _ _ _ => v
def Tok.tag : Tok → Int | .mk _ _ g _ _ _ _ => g
def Tok.line : Tok → Int | .mk _ _ _ l _ _ _ => l
def Tok.vs : Tok → Option (List Nat) | .mk _ _ _ _ s _ _ => s
def Tok.data : Tok → List Dat | .mk _ _ _ _ _ d _ => d
def Tok.ch : Tok → Option (List Tok) | .mk _ _ _ _ _ _ c => c
def Tok.kids (t : Tok) : List Tok := t.ch.getD []

/-- `SValue` as the script arms see it: `none` is `SValue::None` -/
abbrev V := Option Val

def V.toI : V → Int | some v => v.toI | none => 0
def V.toS : V → List Nat | some v => v.toS | none => []
def V.toB (v : V) : Bool := v.toI != 0
def V.isStr : V → Bool | some v => v.isStr | none => false

/-- `SValue::eq` (matches on the argument) -/
def vEq (a b : V) : Bool :=
  match b with
  | some (.int bi) => a.toI == bi
  | some (.str bs) => a.toS == bs
  | some (.bool _) => false
  | none => a.isNone
/-- `gt` / `gteq` (match on self) -/
def vGt (eq : Bool) (a b : V) : Bool :=
  match a with
  | some (.int ai) => decide (ai > b.toI) || (eq && decide (ai = b.toI))
  | some (.str as) => Ex.strLt b.toS as || (eq && as == b.toS)
  | _ => false
/-- `lt` / `lteq` -/
def vLt (eq : Bool) (a b : V) : Bool :=
  match a with
  | some (.int ai) => decide (ai < b.toI) || (eq && decide (ai = b.toI))
  | some (.str as) => Ex.strLt as b.toS || (eq && as == b.toS)
  | _ => false

/-- the binary arm of `CalcTree` by the operator character -/
def calcOp (flag : Int) (a b : V) : Option V :=
  if flag = 38 then some (some (.bool (a.toB && b.toB)))
  else if flag = 124 then some (some (.bool (a.toB || b.toB)))
  else if flag = 61 then some (some (.bool (vEq a b)))
  else if flag = 0x2260 then some (some (.bool (!vEq a b)))
  else if flag = 62 then some (some (.bool (vGt false a b)))
  else if flag = 0x2267 then some (some (.bool (vGt true a b)))
  else if flag = 60 then some (some (.bool (vLt false a b)))
  else if flag = 0x2266 then some (some (.bool (vLt true a b)))
  else if flag = 43 then some (if a.isStr || b.isStr then some (.str (a.toS ++ b.toS)) else some (.int (a.toI + b.toI)))
  else if flag = 45 then some (some (.int (a.toI - b.toI)))
  else if flag = 42 then some (some (.int (a.toI * b.toI)))
  else if flag = 47 then some (some (.int (if b.toI = 0 then 0 else Int.tdiv a.toI b.toI)))
  else if flag = 37 then some (some (.int (if b.toI = 0 then 0 else Int.tmod a.toI b.toI)))
  else none

abbrev Scope := List (List Nat × V)

structure Fn where
  args : List (List Nat)
  defs : List V
  body : List Tok
deriving Repr, Inhabited

structure St where
  scopes : List Scope := [[]]        -- innermost first
  stack : List V := []               -- top first
  brk : Nat := 0
  needRet : Bool := false
  log : List (Int × List Nat) := []  -- PRINT entries (line, text), oldest first; a loop-limit notice is (line, [marker])
  notes : List Int := []
  bad : Bool := false
deriving Repr, Inhabited

def lookupScope (sc : Scope) (k : List Nat) : Option V := (sc.find? (fun p => p.1 == k)).map (·.2)

/-- `variables_get`: innermost scope first -/
def getVar : List Scope → List Nat → Option V
  | [], _ => none
  | sc :: r, k => match lookupScope sc k with | some v => some v | none => getVar r k

/-- `variables_insert`: always into the innermost scope -/
def setVar (s : St) (k : List Nat) (v : V) : St :=
  match s.scopes with
  | sc :: r => { s with scopes := ((k, v) :: sc.filter (fun p => p.1 != k)) :: r }
  | [] => { s with bad := true }

def push (s : St) (v : V) : St := { s with stack := v :: s.stack }
/-- `song.stack.pop()` -/
def pop (s : St) : Option V × St :=
  match s.stack with
  | v :: r => (some v, { s with stack := r })
  | [] => (none, s)

def strResult : List Nat := [82, 101, 115, 117, 108, 116]
def limitMark (w : Nat) : List Nat := [w]      -- 87 = 'W'HILE, 70 = 'F'OR

def joinSp : List (List Nat) → List Nat
  | [] => []
  | [a] => a
  | a :: r => a ++ 32 :: joinSp r

def maxLoop : Nat := 10000

/-- `exec_value(tokens)` given the runner for token lists: set the flag, run, pop one value (default `Int(0)`), restore the flag -/
def valueWith (run : List Tok → St → St) (toks : List Tok) (s : St) : V × St :=
  let p := pop (run toks { s with needRet := true })
  (match p.1 with | some v => v | none => some (.int 0), { p.2 with needRet := s.needRet })

/-- `exec_args(tokens)` given the argument runner: set the flag, run, restore the flag -/
def argsWith (runArgs : List Tok → St → List V × St) (toks : List Tok) (s : St) : List V × St :=
  let r := runArgs toks { s with needRet := true }
  (r.1, { r.2 with needRet := s.needRet })

/-- what a loop does after a pass of its body -/
inductive Next where
  | stop (s : St)
  | again (s : St)

/-- the end of a pass of `exec_while` (`mark` names the loop in the limit notice) -/
def whileNext (line : Int) (counter : Nat) (s3 : St) : Next :=
  if counter + 1 > maxLoop then
    let s4 := { s3 with log := s3.log ++ [(line, limitMark 87)] }
    .stop (if s4.brk = 1 ∨ s4.brk = 2 then { s4 with brk := 0 } else s4)
  else if s3.brk = 1 then .stop { s3 with brk := 0 }
  else if s3.brk = 2 then .again { s3 with brk := 0 }
  else if s3.brk = 3 then .stop s3
  else .again s3

/-- the end of a pass of `exec_for` (the increment clause is run by the caller on the `again` state) -/
def forNext (line : Int) (counter : Nat) (s3 : St) : Next :=
  if counter + 1 > maxLoop then
    let s4 := { s3 with log := s3.log ++ [(line, limitMark 70)] }
    .stop (if s4.brk = 1 ∨ s4.brk = 2 then { s4 with brk := 0 } else s4)
  else if s3.brk = 1 then .stop { s3 with brk := 0 }
  else if s3.brk = 2 then .again { s3 with brk := 0 }
  else .again s3

/-- binding the parameters of a call: argument `i`, or the declared default when it is `None` -/
def bindParams (fn : Fn) (argv : List V) (s : St) : St :=
  (fn.args.zipIdx).foldl (fun (st : St) (p : List Nat × Nat) =>
    setVar st p.1 (match argv.getD p.2 none with | none => fn.defs.getD p.2 none | some x => some x)) s

/-- leaving a call: flag and break state of the caller, the callee's scope dropped, `Result` pushed when a value is wanted -/
def leaveCall (bound s1 : St) : St :=
  let s2 := { s1 with needRet := bound.needRet, brk := bound.brk }
  match s2.scopes with
  | vars :: rest =>
    let s3 := { s2 with scopes := rest }
    if s3.needRet then push s3 ((lookupScope vars strResult).join) else s3
  | [] => { s2 with bad := true }

mutual
/-- the main loop of `exec` over a token list -/
def execList (fns : List Fn) : Nat → List Tok → St → St
  | 0, _, s => { s with bad := true }
  | _ + 1, [], s => s
  | f + 1, t :: ts, s =>
    if s.brk ≠ 0 then s else execList fns f ts (execTok fns f t s)

/-- `exec_args`: every argument token is run on its own with the flag set and one value is popped for it -/
def execArgs (fns : List Fn) : Nat → List Tok → St → List V × St
  | 0, _, s => ([], { s with bad := true })
  | _ + 1, [], s => ([], s)
  | f + 1, t :: ts, s =>
    let s1 := execList fns f [t] s
    let p := pop s1
    let r := execArgs fns f ts p.2
    (p.1.join :: r.1, r.2)

/-- one token -/
def execTok (fns : List Fn) : Nat → Tok → St → St
  | 0, _, s => { s with bad := true }
  | f + 1, t, s =>
    let args := argsWith (execArgs fns f)
    let value := valueWith (execList fns f)
    match t.ty with
    | .lineNo => s
    | .constInt => push s (some (.int t.vi))
    | .constStr => push s (some (.str (t.vs.getD [])))
    | .getVariable =>
      (match t.vs with
       | some k => push s ((getVar s.scopes k).join)
       | none => { s with bad := true })
    | .defInt | .defStr =>
      (match t.vs with
       | some k => let r := value t.kids s; setVar r.2 k r.1
       | none => { s with bad := true })
    | .letVar =>
      (match t.data with
       | .str k :: _ => let r := value t.kids s; setVar r.2 k r.1
       | _ => { s with bad := true })
    | .valueInc =>
      let k := t.vs.getD []
      let cur : V := match getVar s.scopes k with | some v => v | none => some (.int 0)
      setVar s k (some (.int (cur.toI + t.vi)))
    | .tokens => execList fns f t.kids s
    | .print =>
      let r := args t.kids s
      { r.2 with log := r.2.log ++ [(t.line, joinSp (r.1.map V.toS))] }
    | .calcTree =>
      if t.tag = 0 then execList fns f t.kids s
      else
        let r := args t.kids s
        if t.tag = 33 then push r.2 (some (.bool (!((r.1.getD 0 none).toB))))
        else match calcOp t.tag (r.1.getD 0 none) (r.1.getD 1 none) with
          | some c => push r.2 c
          | none => { r.2 with bad := true }
    | .if_ =>
      (match t.kids with
       | c :: th :: el :: _ =>
         let r := value c.kids s
         if r.1.toI ≠ 0 then execList fns f th.kids r.2 else execList fns f el.kids r.2
       | _ => s)
    | .while_ =>
      (match t.kids with
       | c :: b :: _ => whileGo fns f t.line c.kids b.kids 0 s
       | _ => s)
    | .for_ =>
      (match t.kids with
       | i :: c :: n :: b :: _ => forGo fns f t.line c.kids n.kids b.kids 0 (execList fns f i.kids s)
       | _ => s)
    | .break_ => { s with brk := 1 }
    | .continue_ => { s with brk := 2 }
    | .return_ =>
      let r := value t.kids s
      { setVar r.2 strResult r.1 with brk := 3 }
    | .callUser =>
      (match fns[t.tag.toNat]? with
       | none => { s with bad := true }
       | some fn =>
         if t.tag < 0 then { s with bad := true } else
         let r := args t.kids { s with scopes := [] :: s.scopes }
         let bound := bindParams fn r.1 r.2
         -- the body's statements are statements: the flag is cleared for it and restored afterwards
         leaveCall bound (execList fns f fn.body { bound with needRet := false }))
    | .noteN =>
      (match t.data with
       | .int n :: _ => { s with notes := s.notes ++ [n] }
       | _ => { s with bad := true })
    | .other => { s with bad := true }

/-- `exec_while` -/
def whileGo (fns : List Fn) : Nat → Int → List Tok → List Tok → Nat → St → St
  | 0, _, _, _, _, s => { s with bad := true }
  | f + 1, line, c, b, counter, s =>
    let r := valueWith (execList fns f) c s
    if r.1.toB = false then r.2 else
    match whileNext line counter (execList fns f b r.2) with
    | .stop s' => s'
    | .again s' => whileGo fns f line c b (counter + 1) s'

/-- `exec_for` after the initialiser -/
def forGo (fns : List Fn) : Nat → Int → List Tok → List Tok → List Tok → Nat → St → St
  | 0, _, _, _, _, _, s => { s with bad := true }
  | f + 1, line, c, n, b, counter, s =>
    let r := valueWith (execList fns f) c s
    if r.1.toB = false then r.2 else
    match forNext line counter (execList fns f b r.2) with
    | .stop s' => s'
    | .again s' => forGo fns f line c n b (counter + 1) (execList fns f n s')
end

/-- a program: the function table and the top-level tokens -/
def run (fns : List Fn) (toks : List Tok) (fuel : Nat) : St := execList fns fuel toks {}

end Sakura.Sx
