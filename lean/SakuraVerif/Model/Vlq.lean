/-! Model of `midi::array_push_delta` (src/midi.rs) and the SMF variable-length-quantity reader. -/
namespace Sakura

/-- continuation groups, least significant first (as the Rust loop builds `buf`) -/
def vlqMore : Nat → Nat → List Nat
  | 0, _ => []
  | fuel+1, v => if v > 0 then (128 + v % 128) :: vlqMore fuel (v / 128) else []

/-- `array_push_delta` for a non-negative value -/
def encodeDelta (n : Nat) : List Nat :=
  ((n % 128) :: vlqMore (n+1) (n / 128)).reverse

/-- `array_push_delta` on an `isize`: a negative value fails the `while v > 0` test at once, so only
    the low seven bits are written -/
def deltaBytes (d : Int) : List Nat :=
  if d < 0 then [(d % 128).toNat] else encodeDelta d.toNat

/-- SMF 1.0 variable-length quantity reader (specification side) -/
def decodeVlq : Nat → List Nat → Option (Nat × List Nat)
  | _, [] => none
  | acc, b :: rest => if b < 128 then some (acc * 128 + b, rest) else decodeVlq (acc * 128 + (b - 128)) rest

/-- number of bytes of a VLQ at the head of a list (none when unterminated) -/
def vlqLen : List Nat → Option Nat
  | [] => none
  | b :: rest => if b < 128 then some 1 else (vlqLen rest).map (· + 1)

end Sakura
