import SakuraVerif.Driver.SmfOps
import SakuraVerif.Driver.DumpOps
import SakuraVerif.Driver.LenOps
import SakuraVerif.Driver.MsgOps
import SakuraVerif.Model.Messages
import SakuraVerif.Driver.SutOps
import SakuraVerif.Driver.ExprOps
import SakuraVerif.Driver.CoreOps
import SakuraVerif.Driver.ScriptOps
import SakuraVerif.Driver.TimeOps
import SakuraVerif.Model.Tie
import SakuraVerif.Driver.ReserveOps
import SakuraVerif.Driver.LexOps
import SakuraVerif.Driver.ExecOps
import SakuraVerif.Driver.ScriptExecOps
import SakuraVerif.Props.C09
open Sakura Sakura.Wire Sakura.Driver

def handle (line : String) : String :=
  match line.trimAscii.toString.splitOn " " with
  | ["ping"] => "ok pong"
  | ["lex", src] => "ok " ++ lexOp src
  | ["exec", toks, tb] => "ok " ++ execOp toks (parseInt tb)
  | ["compile", prog] => "ok " ++ compileOp prog
  | ["printk", prog] => "ok " ++ printkOp prog
  | ["keyflagspec", vals] => "ok kf=" ++ "/".intercalate ((Sakura.Core.keyFlagOfList (parseIntList vals)).map toString)
  | ["generate", tb, pf, tracks] =>
      "ok bin=" ++ hex (generateSong (parseInt tb) (parseInt pf) (parseTracks tracks))
  | ["spec.c01", bin, n, tb] => "ok " ++ specC01 (unhex bin) (parseNat n) (parseNat tb)
  | ["spec.c02", bin, pf, tracks] => "ok " ++ specC02 (unhex bin) (parseInt pf) (parseTracks tracks)
  | ["playfrom", p, evs] => "ok ev=" ++ showEvents (playFrom (parseInt p) (parseEvents evs))
  | ["sysexdata", flag, vals] => "ok data=" ++ hex (Sakura.sysexData (flag == "1") (parseIntList vals))
  | ["dumptext", bin] => "ok " ++ dumpTextOp (unhex bin)
  | ["spec.c20", bin, text] => "ok " ++ specC20 (unhex bin) (String.ofList ((utf8Decode (unhex text)).map Char.ofNat))
  | ["calc_length", str, tb, d] => s!"ok out={Sakura.Len.calcLength (parseInt tb) (parseInt d) (text str)}"
  | ["lenspec", tb, d, syn] => s!"ok out={lenSpec (parseInt tb) (parseInt d) syn}"
  | ["lenspec2", tb, dsyn, syn] => s!"ok out={lenSpec (parseInt tb) (lenSpec (parseInt tb) (parseInt tb) dsyn) syn}"
  | ["spec.c15", name, ch, dev, args, txt, bin] =>
      "ok " ++ specC15 (String.ofList ((text name).map Char.ofNat)) (parseNat ch) (parseNat dev) (parseIntList args) (text txt) (unhex bin)
  | ["convert", src] => "ok " ++ sutConvert src
  | ["sutspec", segs] => "ok " ++ sutExpected segs
  | ["zen2han", c] => s!"ok out={Sakura.Sut.zen2han (parseNat c)}"
  | ["expr", tree] => "ok " ++ exprEval tree
  | "builtin" :: name :: args => "ok " ++ builtinEval name args
  | ["coresem", prog] => "ok " ++ coreSem prog
  | ["spec.c03", prog, bin] => "ok " ++ specC03 prog (unhex bin)
  | ["scriptexec", toks, funcs] => "ok " ++ scriptExecOp toks funcs
  | ["script", prog] => "ok " ++ scriptRun prog
  | ["timespec", tb, fr, de, sh, args] => s!"ok out={Sakura.Time.getTime (parseInt tb) (parseInt fr) (parseInt de) (parseInt sh) (parseIntList args)}"
  | ["pflaw", p, evs] => "ok ev=" ++ showEvents (pfLaw (parseInt p) (parseEvents evs))
  | ["tieflush", mode, ch, tb, br, tv, evs] =>
      let r := Sakura.Tie.flush (parseInt mode) (parseInt ch) (parseInt tb) (parseInt br) (parseInt tv) (parseEvents evs)
      s!"ok ev={showEvents r.1} br={r.2}"
  | ["reserve", prog] => "ok " ++ reserveRun prog
  | "macrosubst" :: body :: args =>
      "ok out=" ++ textOut (Sakura.Props.C09.substArgs (text body) (args.map text))
  | ["rhythm", defs, body] =>
      -- defs: comma separated `<char code>:<hex text>` overriding the regenerated built-in table
      let user := (if defs == "~" then [] else defs.splitOn ",").map (fun d => match d.splitOn ":" with
        | [c, t] => (parseNat c, text t) | _ => (0, []))
      let table := fun c => match user.find? (fun p => p.1 == c) with
        | some p => p.2
        | none => match Sakura.Gen.rhythmMacro.find? (fun p => p.1 == c) with | some p => p.2 | none => []
      "ok out=" ++ textOut (Sakura.Props.C09.rhythmExpand table ((text body).length + 1) (text body))
  | _ => "bad-op"

partial def loop (h : IO.FS.Stream) (out : IO.FS.Stream) : IO Unit := do
  let line ← h.getLine
  if line.isEmpty then return ()
  out.putStrLn (handle line)
  loop h out

def main : IO Unit := do
  let out ← IO.getStdout
  loop (← IO.getStdin) out
  out.flush
