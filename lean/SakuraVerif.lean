import SakuraVerif.Lemmas.Vlq
