import SakuraVerif.Props.C01
import SakuraVerif.Props.C02
import SakuraVerif.Props.C20
import SakuraVerif.Gen.Tables
import SakuraVerif.Props.C04
import SakuraVerif.Props.C15
import SakuraVerif.Props.C17
import SakuraVerif.Props.C10
