#!/bin/sh
# Build the framework from files on disk only (offline): Lean project (all property modules and
# the model driver) and the oracle harness against a snapshot of /repo.
set -e
cd "$(dirname "$0")"
export CARGO_NET_OFFLINE=true
python3 - <<'PY'
import sys, os
sys.path.insert(0, os.getcwd())
from vlib import core
P = core.prepare(need_cli=True)
if P.build_error:
    print(P.build_error); sys.exit(1)
ch, err = core.gen_tables(P)
print("translator:", ch, err)
PY
cd lean
lake build SakuraVerif sakura-driver
